package rules

import (
	"fmt"
	"go/token"
	"go/types"
	"os"
	"sort"
	"strings"

	"golang.org/x/tools/go/ssa"

	"verif/checker/internal/an"
)

const isAcyclicName = "dig/internal/graph.IsAcyclic"

// verifiedEdges returns the edges of fn on which the scope denoted by the
// normalised expression sc is known to have a verified acyclic graph.
func verifiedEdges(c *an.Ctx, fn *ssa.Function, sc string) []an.Edge {
	var out []an.Edge
	out = append(out, an.EdgesWhere(fn, an.FactIs(sc+".isVerifiedAcyclic"))...)
	out = append(out, an.EdgesWhere(fn, an.FactIs(isAcyclicName+"(iface("+sc+".gh))#0"))...)
	return out
}

// nilMeansVerified: every nil return of f is dominated by a verified edge for
// its receiver.
func nilMeansVerified(c *an.Ctx, f *ssa.Function) bool {
	if len(f.Params) == 0 || len(f.Blocks) == 0 {
		return false
	}
	recv := "p:" + an.CanonParam(f.Params[0])
	edges := verifiedEdges(c, f, recv)
	if len(edges) == 0 {
		return false
	}
	ok := true
	n := 0
	an.Instrs(f, func(in ssa.Instruction) {
		r, isR := in.(*ssa.Return)
		if !isR || len(r.Results) != 1 {
			return
		}
		if k, isK := an.Resolve(r.Results[0]).(*ssa.Const); isK && k.IsNil() {
			n++
			if hit, _ := an.PathTo(f, nil, an.IsInstr(r), an.NewGates().AddEdges(edges...)); hit != nil {
				ok = false
			}
		}
	})
	return ok && n > 0
}

// ruleAcyclicView (M-acyclic-view, C05).
func ruleAcyclicView(rule string) RuleFn {
	return func(c *an.Ctx) {
		c.Rule(rule, "M-acyclic-view (typestate 'build only in a verified view'): in every executor the BuildList(v) call is dominated by establishing verified(v): the true edge of v.isVerifiedAcyclic, the ok edge of graph.IsAcyclic(v.gh), or the nil edge of a call on v whose every implementation returns nil only under one of those two edges. Reasoned exception: the decorator executor builds in the decorating scope, an ancestor-or-self of a view that was verified before the decorator could be reached; an ancestor sees a sub-graph")
		for _, m := range models(c, rule) {
			if m.build == nil {
				continue
			}
			cons := m.name + ": arguments are built only in a view whose graph was verified acyclic"
			if m.kind == "dec" {
				c.OK(rule, cons, "reasoned exception: the decorating scope is an ancestor-or-self of an already verified view", m.build)
				continue
			}
			view := an.Norm(m.build.Common().Args[1])
			sc := strings.TrimSuffix(strings.TrimPrefix(view, "iface("), ")")
			if !strings.HasPrefix(view, "iface(") {
				sc = view
			}
			g := an.NewGates().AddEdges(verifiedEdges(c, m.fn, sc)...)
			// calls on the view with a nil-means-verified summary
			an.Instrs(m.fn, func(in ssa.Instruction) {
				k, ok := in.(*ssa.Call)
				if !ok {
					return
				}
				cc := k.Common()
				var recv ssa.Value
				var impls []*ssa.Function
				if cc.IsInvoke() {
					recv = cc.Value
					for _, f := range an.CalleesAt(c.P.CHA(), k) {
						if f.Synthetic != "" {
							impls = append(impls, staticCalleesOf(f)...)
						} else {
							impls = append(impls, f)
						}
					}
				} else if f := an.StaticCallee(k); f != nil && f.Signature.Recv() != nil && len(cc.Args) > 0 {
					recv = cc.Args[0]
					impls = []*ssa.Function{f}
				}
				if recv == nil || len(impls) == 0 {
					return
				}
				rn := an.Norm(recv)
				if rn != view && rn != sc {
					return
				}
				if errResultIndex(impls[0]) != -1 {
					return
				}
				for _, f := range impls {
					if !c.P.InModule(f) || !nilMeansVerified(c, f) {
						return
					}
				}
				g.AddEdges(an.NilErrEdges(m.fn, k, -1)...)
			})
			if g.Len() == 0 {
				c.Bad(rule, cons, "nothing in "+m.name+" establishes that the view "+view+" was verified acyclic before its parameters are built in it: with deferred verification an exported constructor is built in its original scope's view, which nobody verified - a cycle visible only there recurses without bound", m.build, nil)
				continue
			}
			if hit, path := an.PathTo(m.fn, nil, an.IsInstr(m.build), g); hit != nil {
				c.Bad(rule, cons, "BuildList("+view+") is reachable without the view having been verified acyclic", m.build, an.BlockPath(c.P, path))
				continue
			}
			c.OK(rule, cons, fmt.Sprintf("dominated by %d verifying edge(s) for %s", g.Len(), sc), m.build)
		}
	}
}

// ruleFlagSound: soundness of Scope.isVerifiedAcyclic.
func ruleFlagSound(rule string) RuleFn {
	return func(c *an.Ctx) {
		c.Rule(rule, "flag soundness: every store of true into X.isVerifiedAcyclic (anywhere in the module) is dominated by the ok edge of graph.IsAcyclic(X.gh) for the same X; in Scope.provide every path from the update of Scope.providers to a nil return passes a complete loop over appendSubscopes(home) whose every iteration first stores false into the element's isVerifiedAcyclic and whose only early exits are error returns (so any later Invoke re-verifies, with or without deferral); no other function writes the flag")
		nFalse := 0
		for _, fn := range c.P.Funcs {
			for _, st := range an.StoresToField(fn, "Scope", "isVerifiedAcyclic") {
				nm := an.ShortName(fn)
				addr := an.Norm(st.Addr)
				sc := strings.TrimSuffix(strings.TrimPrefix(addr, "&"), ".isVerifiedAcyclic")
				switch an.Norm(st.Val) {
				case "true":
					edges := an.EdgesWhere(fn, an.FactIs(isAcyclicName+"(iface("+sc+".gh))#0"))
					cons := "isVerifiedAcyclic = true in " + nm + " only after IsAcyclic succeeded on the same scope"
					if hit, path := an.PathTo(fn, nil, an.IsInstr(st), an.NewGates().AddEdges(edges...)); hit != nil || len(edges) == 0 {
						c.Bad(rule, cons, "a scope is marked verified without IsAcyclic having succeeded on its own graph: later Invokes skip cycle detection", st, an.BlockPath(c.P, path))
					} else {
						c.OK(rule, cons, sc, st)
					}
				case "false":
					nFalse++
					c.OK(rule, "isVerifiedAcyclic = false in "+nm, "conservative", st)
				default:
					c.Bad(rule, "isVerifiedAcyclic written in "+nm, "non-constant value "+an.Norm(st.Val)+" stored into the verified flag", st, nil)
				}
			}
		}
		// a missing "= true" only costs a repeated verification; what must exist is the reset
		c.Floor(rule, "resets of Scope.isVerifiedAcyclic", nFalse, 1)
		fn := c.Fn(rule, "(*dig.Scope).provide")
		if fn == nil {
			return
		}
		subs := an.CallsNamed(fn, "(*dig.Scope).appendSubscopes")
		if len(subs) != 1 {
			c.Und(rule, "anchor appendSubscopes in provide", "not found")
			return
		}
		all := an.Norm(subs[0].(*ssa.Call))
		// the reset loop
		var loop *rangeLoop
		var reset *ssa.Store
		for _, l := range rangeLoops(fn) {
			if l.over != all {
				continue
			}
			for b := range l.body {
				for _, in := range b.Instrs {
					if st, ok := in.(*ssa.Store); ok && an.Norm(st.Val) == "false" && strings.HasPrefix(an.Norm(st.Addr), "&"+all+"[") && strings.HasSuffix(an.Norm(st.Addr), ".isVerifiedAcyclic") {
						loop, reset = l, st
					}
				}
			}
		}
		cons := "provide: every scope of the affected subtree is marked unverified after the providers changed"
		if loop == nil {
			c.BadAt(rule, cons, "no loop over appendSubscopes(home) that stores false into each scope's isVerifiedAcyclic: a later Invoke trusts a stale verdict and may recurse through a cycle", c.P.Pos(fn.Pos()), nil)
			return
		}
		// the reset happens on every iteration before anything conditional
		body := loop.header.Succs[0]
		if hit, _ := an.PathTo(fn, body.Instrs[0], func(i ssa.Instruction) bool { return i.Block() == loop.header || an.IsExit(i) }, an.NewGates().AddInstr(reset)); hit != nil && reset.Block() != body {
			c.Bad(rule, cons, "an iteration can skip the reset of isVerifiedAcyclic (e.g. it is conditional on the deferral option)", reset, nil)
			return
		}
		for _, e := range loop.earlyExits() {
			tgt := e.From.Succs[e.Succ]
			if reachesNormalContinuation(tgt, loop) {
				c.Bad(rule, cons, "the reset loop can be left early without an error: descendants keep a stale verified flag", e.From.Instrs[len(e.From.Instrs)-1], nil)
				return
			}
		}
		// every path from a providers update to a nil return passes the loop's exhausted exit
		exitEdge := an.Edge{From: loop.header, Succ: 1}
		bad := false
		for _, e := range directWrites(fn) {
			if e.field != "Scope.providers" {
				continue
			}
			if mu, ok := e.in.(*ssa.MapUpdate); ok && restoreLoop(mu) != nil {
				continue
			}
			hit, path := an.PathTo(fn, e.in, func(i ssa.Instruction) bool {
				r, ok := i.(*ssa.Return)
				return ok && !isErrorExit(r) && i.Block().Comment != "recover"
			}, an.NewGates().AddEdges(exitEdge))
			if hit != nil {
				bad = true
				c.Bad(rule, cons, "a successful return is reachable after the providers changed without the reset loop having completed", e.in, an.BlockPath(c.P, path))
			}
		}
		if !bad {
			c.OK(rule, cons, "loop over "+all+" resets each scope; success only after the loop is exhausted", reset)
		}
	}
}

// ruleAcyclicProvide (M-acyclic-provide).
func ruleAcyclicProvide(rule string) RuleFn {
	return func(c *an.Ctx) {
		c.Rule(rule, "M-acyclic-provide: in Scope.provide each iteration of the loop over appendSubscopes(home) either crosses the true edge of the element's deferAcyclicVerification or calls graph.IsAcyclic on the element's graph; the failure edge of every IsAcyclic call in the module (provide, Invoke, helpers) leads only to error returns wrapping <scope>.cycleDetectedError(<the cycle that call reported>)")
		fn := c.Fn(rule, "(*dig.Scope).provide")
		if fn == nil {
			return
		}
		subs := an.CallsNamed(fn, "(*dig.Scope).appendSubscopes")
		if len(subs) == 1 {
			all := an.Norm(subs[0].(*ssa.Call))
			var loop *rangeLoop
			var isa *ssa.Call
			for _, l := range rangeLoops(fn) {
				if l.over != all {
					continue
				}
				for b := range l.body {
					for _, in := range b.Instrs {
						if k, ok := in.(*ssa.Call); ok && an.CalleeName(k) == isAcyclicName && strings.HasPrefix(an.Norm(k.Common().Args[0]), "iface("+all+"[") {
							loop, isa = l, k
						}
					}
				}
			}
			cons := "provide: without deferral every scope of the affected subtree is checked for cycles"
			if loop == nil {
				c.BadAt(rule, cons, "no loop over appendSubscopes(home) calling IsAcyclic on each scope's graph: a Provide closing a cycle visible from a descendant is accepted", c.P.Pos(fn.Pos()), nil)
			} else {
				elem := strings.TrimSuffix(strings.TrimPrefix(an.Norm(isa.Common().Args[0]), "iface("), ".gh)")
				g := an.NewGates().AddInstr(isa).AddEdges(an.EdgesWhere(fn, an.FactIs(elem+".deferAcyclicVerification"))...)
				body := loop.header.Succs[0]
				if hit, path := an.PathTo(fn, body.Instrs[0], func(i ssa.Instruction) bool { return i.Block() == loop.header }, g); hit != nil {
					c.Bad(rule, cons, "an iteration can reach the next scope without verification although verification is not deferred", isa, an.BlockPath(c.P, path))
				} else {
					c.OK(rule, cons, "each iteration: deferred or IsAcyclic("+elem+".gh)", isa)
				}
			}
		}
		// failure edges of all IsAcyclic calls
		n := 0
		for _, f := range c.P.Funcs {
			for _, k := range methodCalls(f, isAcyclicName) {
				n++
				cons := "IsAcyclic failure in " + an.ShortName(f) + " is reported as a cycle error"
				kk := k
				fail := an.BoolEdges(f, func(v ssa.Value) bool {
					ex, ok := v.(*ssa.Extract)
					return ok && ex.Tuple == ssa.Value(kk) && ex.Index == 0
				}, false)
				if len(fail) == 0 {
					c.Bad(rule, cons, "the verdict of IsAcyclic is not tested", k, nil)
					continue
				}
				okAll := true
				for _, e := range fail {
					e := e
					// path-sensitive: which values can a return deliver on paths that start with the failure edge
					type rv struct {
						r *ssa.Return
						v ssa.Value
					}
					var rets []rv
					seenRV := map[string]bool{}
					an.PathSens(an.PSQuery{Fn: f, StartEdge: &e, Target: func(i ssa.Instruction, env *an.PEnv) bool {
						if r, ok := i.(*ssa.Return); ok && i.Block().Comment != "recover" && len(r.Results) > 0 {
							v := an.Resolve(env.Val(r.Results[len(r.Results)-1]))
							key := fmt.Sprintf("%p|%s", r, an.Norm(v))
							if !seenRV[key] {
								seenRV[key] = true
								rets = append(rets, rv{r, v})
							}
						}
						return false
					}})
					if len(rets) == 0 {
						okAll = false
						c.Bad(rule, cons, "the failure edge does not lead to a return", k, nil)
						continue
					}
					for _, x := range rets {
						s := an.Norm(x.v)
						want := ".cycleDetectedError(" + an.Norm(k) + "#1)"
						kc, isNil := x.v.(*ssa.Const)
						if (isNil && kc.IsNil()) || !strings.Contains(s, want) {
							okAll = false
							c.Bad(rule, cons, "after a detected cycle the function can return "+s+": the cycle is not rejected or the error is not recognisable by IsCycleDetected", x.r, nil)
						}
					}
				}
				if okAll {
					c.OK(rule, cons, "returns an error wrapping cycleDetectedError(cycle)", k)
				}
			}
		}
		c.Floor(rule, "IsAcyclic call sites", n, 2)
	}
}

// returnsFrom lists the returns reachable from the block starting at first
// (inclusive).
func returnsFrom(fn *ssa.Function, first ssa.Instruction) []*ssa.Return {
	var out []*ssa.Return
	seen := map[*ssa.BasicBlock]bool{}
	stack := []*ssa.BasicBlock{first.Block()}
	for len(stack) > 0 {
		b := stack[len(stack)-1]
		stack = stack[:len(stack)-1]
		if seen[b] {
			continue
		}
		seen[b] = true
		for _, in := range b.Instrs {
			if r, ok := in.(*ssa.Return); ok {
				out = append(out, r)
			}
		}
		stack = append(stack, b.Succs...)
	}
	return out
}

// ruleCycleErr (W-cycleerr, X-iscycle).
func ruleCycleErr(rule string) RuleFn {
	return func(c *an.Ctx) {
		c.Rule(rule, "W-cycleerr/X-iscycle: errCycleDetected values are constructed only in Scope.cycleDetectedError and on the re-entry edge of constructorNode.Call; cycleDetectedError is called only with the cycle reported by a failed graph.IsAcyclic call; IsCycleDetected looks for an errCycleDetected link among the links dig itself created (from the outermost dig.Error down, stopping at errConstructorFailed and at the first foreign error), never inside the error a constructor returned - so IsCycleDetected is true exactly for cycle rejections of this container")
		n := 0
		for _, fn := range c.P.Funcs {
			an.Instrs(fn, func(in ssa.Instruction) {
				if al, ok := in.(*ssa.Alloc); ok && isConstruction(al) && an.IsDigNamed(al.Type(), "errCycleDetected") {
					// IsCycleDetected builds an empty one as the errors.As target
					nm := an.ShortName(fn)
					if nm == "dig.IsCycleDetected" {
						return
					}
					n++
					// the second legitimate site: the re-entry test of the constructor executor (a constructor found
					// 'being built' again is on a dependency cycle, see G-ctor-reentry) - only under that test
					if nm == "(*dig.constructorNode).Call" {
						pos := an.BoolEdges(fn, func(v ssa.Value) bool { return an.Norm(v) == "p:n.building" || an.Norm(v) == "p:n.running" }, true)
						hit, _ := an.PathTo(fn, nil, an.IsInstr(al), an.NewGates().AddEdges(pos...))
						c.Check(len(pos) > 0 && hit == nil, rule, "errCycleDetected constructed in "+nm, "only on a re-entry edge (n.building / n.running)", "a cycle error is manufactured in the constructor executor outside its re-entry test: IsCycleDetected becomes true for non-cycle rejections", al, nil)
						return
					}
					c.Check(nm == "(*dig.Scope).cycleDetectedError", rule, "errCycleDetected constructed in "+nm, "owner", "a cycle error is manufactured outside cycleDetectedError: IsCycleDetected becomes true for non-cycle rejections", al, nil)
				}
			})
			for _, k := range methodCalls(fn, "(*dig.Scope).cycleDetectedError") {
				a := an.Resolve(k.Common().Args[1])
				ex, ok := a.(*ssa.Extract)
				good := false
				if ok && ex.Index == 1 {
					if ik, ok := ex.Tuple.(*ssa.Call); ok && an.CalleeName(ik) == isAcyclicName {
						fail := an.BoolEdges(fn, func(v ssa.Value) bool {
							e2, ok := v.(*ssa.Extract)
							return ok && e2.Tuple == ssa.Value(ik) && e2.Index == 0
						}, false)
						if hit, _ := an.PathTo(fn, nil, an.IsInstr(k), an.NewGates().AddEdges(fail...)); hit == nil && len(fail) > 0 {
							good = true
						}
					}
				}
				c.Check(good, rule, "cycleDetectedError called in "+an.ShortName(fn)+" only for a cycle IsAcyclic reported", an.Norm(a), "cycleDetectedError is called without a failed IsAcyclic verdict", k, nil)
			}
		}
		c.Floor(rule, "errCycleDetected construction sites", n, 1)
		if fn := c.Fn(rule, "dig.IsCycleDetected"); fn != nil {
			good, why := true, ""
			// no search through the whole chain for the cycle error: that would also look inside the error a
			// constructor returned (a nested container's cycle rejection passed on with %w)
			for _, k := range an.CallsNamed(fn, "errors.As", "errors.Is") {
				if len(k.Common().Args) == 2 && strings.Contains(k.Common().Args[1].Type().String()+an.Norm(k.Common().Args[1]), "errCycleDetected") {
					good, why = false, "IsCycleDetected searches the whole chain with "+an.CalleeName(k)+"(err, *errCycleDetected), the part a constructor returned included: a constructor that fails with the (wrapped) cycle rejection of another container makes IsCycleDetected true for an acyclic graph"
				}
			}
			found := an.BoolEdges(fn, func(v ssa.Value) bool { return taOK(v, "errCycleDetected") }, true)
			// ... or the same walk having found one in a branch of a joined error (a recursive call)
			found = append(found, an.BoolEdges(fn, func(v ssa.Value) bool {
				k, ok := v.(*ssa.Call)
				return ok && an.StaticCallee(k) == fn
			}, true)...)
			nTrue := 0
			an.Instrs(fn, func(in ssa.Instruction) {
				r, isR := in.(*ssa.Return)
				if !isR || len(r.Results) != 1 || an.Norm(r.Results[0]) != "true" {
					return
				}
				nTrue++
				if hit, _ := an.PathTo(fn, nil, an.IsInstr(r), an.NewGates().AddEdges(found...)); hit != nil || len(found) == 0 {
					if good {
						good, why = false, "IsCycleDetected can answer true without having found an errCycleDetected link"
					}
				}
			})
			if good && nTrue == 0 {
				good, why = false, "IsCycleDetected never answers true by finding an errCycleDetected link among dig's own links"
			}
			if good {
				if ok, w := stopsAtConstructorFailed(fn); !ok {
					good, why = false, "IsCycleDetected: "+w+" (whatever a constructor returned is not a cycle rejection of this container)"
				}
			}
			// every branch of a joined error is searched: the walk knows `Unwrap() []error`, and it does not commit
			// itself to the FIRST dig.Error errors.As happens to find
			joined := false
			an.Instrs(fn, func(in ssa.Instruction) {
				if ta, ok := in.(*ssa.TypeAssert); ok {
					if it, ok := ta.AssertedType.Underlying().(*types.Interface); ok {
						for i := 0; i < it.NumMethods(); i++ {
							if m := it.Method(i); m.Name() == "Unwrap" {
								if sig, ok := m.Type().(*types.Signature); ok && sig.Results().Len() == 1 {
									if _, isSlice := sig.Results().At(0).Type().Underlying().(*types.Slice); isSlice {
										joined = true
									}
								}
							}
						}
					}
				}
			})
			firstOnly := len(an.CallsNamed(fn, "errors.As")) > 0
			// ... every branch: the loop that recurses covers the whole list, and a yes from a branch is a yes
			if joined {
				isSelf := func(v ssa.Value) bool {
					k, ok := v.(*ssa.Call)
					return ok && an.StaticCallee(k) == fn
				}
				nLoops := 0
				for _, l := range allLoops(fn) {
					has := false
					for b := range l.body {
						for _, in := range b.Instrs {
							if v, ok := in.(ssa.Value); ok && isSelf(v) {
								has = true
							}
						}
					}
					if !has {
						continue
					}
					nLoops++
					if all, w := loopCoversAll(l); !all {
						joined = false
						_ = w
					}
				}
				yes := an.BoolEdges(fn, isSelf, true)
				if nLoops == 0 || len(yes) == 0 {
					joined = false
				}
				saysNo := func(i ssa.Instruction) bool {
					r, ok := i.(*ssa.Return)
					if !ok || len(r.Results) != 1 {
						return false
					}
					k, ok := r.Results[0].(*ssa.Const)
					return ok && k.Value != nil && k.Value.String() == "false"
				}
				for _, e := range yes {
					first := e.From.Succs[e.Succ].Instrs[0]
					if saysNo(first) {
						joined = false
					} else if hit, _ := an.PathTo(fn, first, func(i ssa.Instruction) bool {
						if saysNo(i) {
							return true
						}
						// going on with the next branch after a yes
						k, ok := i.(*ssa.Call)
						return ok && an.StaticCallee(k) == fn
					}, nil); hit != nil {
						joined = false
					}
				}
			}
			c.Check(joined && !firstOnly, rule, "IsCycleDetected searches every branch of a wrapped or joined error", "Unwrap() []error handled, no errors.As pre-selection", "IsCycleDetected follows one chain only (the first dig.Error errors.As finds, or no joined errors at all): for errors.Join(other, cycleErr) or fmt.Errorf(\"%w; %w\", ...) the answer depends on the order of the operands", nil, nil)
			c.Check(good, rule, "IsCycleDetected follows dig's own links only and is true exactly for an errCycleDetected link", "outermost dig.Error, then link by link, stop at errConstructorFailed", why, nil, nil)
		}
	}
}

// wrappedValueSet: dynamic types that flow into graphNode.Wrapped.
func wrappedValueSet(c *an.Ctx) map[string]ssa.Instruction {
	out := map[string]ssa.Instruction{}
	for _, fn := range c.P.Funcs {
		if an.ShortName(fn) == "(*dig.Scope).newGraphNode" {
			continue
		}
		an.Instrs(fn, func(in ssa.Instruction) {
			k, ok := in.(ssa.CallInstruction)
			if !ok {
				return
			}
			cc := k.Common()
			isNG := (cc.IsInvoke() && cc.Method.Name() == "newGraphNode") || an.CalleeName(k) == "(*dig.Scope).newGraphNode" || an.CalleeName(k) == "(*dig.graphHolder).NewNode"
			if !isNG {
				return
			}
			args := cc.Args
			var w ssa.Value
			if cc.IsInvoke() {
				w = args[0]
			} else {
				w = args[1]
			}
			if mi, ok := w.(*ssa.MakeInterface); ok {
				out[strings.ReplaceAll(mi.X.Type().String(), an.ModPath, "dig")] = in
			} else {
				out["?"+an.Norm(w)] = in
			}
		})
	}
	return out
}

// ruleOrders (X-wrapped, C05/C16).
func ruleOrders(rule string) RuleFn {
	return func(c *an.Ctx) {
		c.Rule(rule, "orders invariant (E-SIB X-wrapped): every place that makes a scope hold a graph node records that scope's index in the node's own orders map, for every node type in the value set of graphNode.Wrapped: (a) newGraphNode stores orders[s] = s.gh.NewNode(wrapped) and recurses over childScopes with the same arguments; (b) each creator passes the node together with that node's own orders map; (c) the copy loop of Scope.Scope copies every parent node and, for every type in the value set, copies orders[parent] to orders[child]. A missing entry reads as index 0 and fabricates an edge")
		// (d) every call of NewNode gives the wrapped object a node of its OWN: the append to gh.nodes lies on every
		// path to a return, and what is returned is the length before that append. A node shared between two
		// wrapped objects (the consumers of one value group, say) leaves the second object without an entry in the
		// scopes created later - Scope.Scope copies orders for the object each node wraps
		if nn := c.Fn(rule, "(*dig.graphHolder).NewNode"); nn != nil {
			var apps []ssa.Instruction
			for _, st := range an.StoresToField(nn, "graphHolder", "nodes") {
				apps = append(apps, st)
			}
			okNew := len(apps) == 1
			why := "NewNode does not append exactly one node"
			if okNew {
				isRet := func(i ssa.Instruction) bool { _, ok := i.(*ssa.Return); return ok }
				if hit, _ := an.PathTo(nn, nil, isRet, an.NewGates().AddInstr(apps...)); hit != nil {
					okNew, why = false, "NewNode can return without having appended a node: the wrapped object shares the node of another one (or has none), and a scope created later holds no index for it - index 0 is read there and an edge is fabricated or lost"
				}
				an.Instrs(nn, func(in ssa.Instruction) {
					if r, ok := in.(*ssa.Return); ok && okNew {
						// the index derives from the length of the node list (an adjustment under a condition that
						// cannot hold is not this rule's business; an index taken from somewhere else is)
						derived := false
						for _, o := range an.Origins(r.Results[0]) {
							if strings.Contains(an.Norm(o), "len(p:gh.nodes)") {
								derived = true
							}
						}
						if v := an.Norm(r.Results[0]); !derived && v != "len(p:gh.nodes)" {
							okNew, why = false, "NewNode returns "+v+", not the index of the node it appended"
						}
					}
				})
			}
			c.Check(okNew, rule, "(d) NewNode gives every wrapped object a node of its own", "append on every path; returns the length before it", why, nil, nil)
		}
		vs := wrappedValueSet(c)
		var types_ []string
		for t := range vs {
			types_ = append(types_, t)
		}
		sort.Strings(types_)
		if !c.Floor(rule, "node types flowing into graphNode.Wrapped", len(vs), 2) {
			return
		}
		for _, t := range types_ {
			if strings.HasPrefix(t, "?") {
				c.Bad(rule, "graph node creator passes a statically known node type", "a graph node of unknown dynamic type is created: "+t, vs[t], nil)
			}
		}
		// (a)
		if ng := c.Fn(rule, "(*dig.Scope).newGraphNode"); ng != nil {
			okStore := false
			an.Instrs(ng, func(in ssa.Instruction) {
				if mu, ok := in.(*ssa.MapUpdate); ok && an.Norm(mu.Map) == "p:orders" && an.Norm(mu.Key) == "p:s" && an.Norm(mu.Value) == "p:s.gh.NewNode(p:wrapped)" {
					okStore = true
				}
			})
			// alternative shape: one loop over the whole subtree, appendSubscopes(nil), registering in every element
			iter := false
			for _, l := range rangeLoops(ng) {
				if l.over != "p:s.appendSubscopes(nil)" || len(l.earlyExits()) > 0 {
					continue
				}
				for b := range l.body {
					for _, in := range b.Instrs {
						if mu, ok := in.(*ssa.MapUpdate); ok && an.Norm(mu.Map) == "p:orders" {
							k, v := an.Norm(mu.Key), an.Norm(mu.Value)
							if strings.HasPrefix(k, "p:s.appendSubscopes(nil)[") && v == k+".gh.NewNode(p:wrapped)" {
								iter = true
							}
						}
						if _, isIf := in.(*ssa.If); isIf && b != l.header {
							iter = false
						}
					}
				}
			}
			if iter && countIfs(ng) == 1 {
				c.OKAt(rule, "(a) newGraphNode records the node's index for the scope", "for each scope of appendSubscopes(nil): orders[scope] = scope.gh.NewNode(wrapped)", "-")
				c.OKAt(rule, "(a) newGraphNode reaches the whole subtree", "one loop over appendSubscopes(nil) (checked by W-scopes to enumerate the whole subtree)", "-")
			} else {
				c.Check(okStore, rule, "(a) newGraphNode records the node's index for the scope", "orders[s] = s.gh.NewNode(wrapped)", "newGraphNode does not store orders[s] = s.gh.NewNode(wrapped)", nil, nil)
				okRec := false
				for _, l := range rangeLoops(ng) {
					if l.over != "p:s.childScopes" {
						continue
					}
					for b := range l.body {
						for _, in := range b.Instrs {
							if k, ok := in.(*ssa.Call); ok && an.StaticCallee(k) == ng && an.Norm(k.Common().Args[1]) == "p:wrapped" && an.Norm(k.Common().Args[2]) == "p:orders" && strings.HasPrefix(an.Norm(k.Common().Args[0]), "p:s.childScopes[") {
								okRec = true
							}
						}
					}
					if len(l.earlyExits()) > 0 {
						okRec = false
					}
				}
				c.Check(okRec, rule, "(a) newGraphNode reaches the whole subtree", "recursion over childScopes", "newGraphNode does not recurse over all childScopes with the same node and orders map: descendants miss the node", nil, nil)
			}
		}
		// (b)
		for _, nm := range []string{"dig.newConstructorNode", "dig.newParamGroupedSlice"} {
			fn := c.Fn(rule, nm)
			if fn == nil {
				continue
			}
			found := false
			an.Instrs(fn, func(in ssa.Instruction) {
				k, ok := in.(ssa.CallInstruction)
				if !ok {
					return
				}
				cc := k.Common()
				var w, o ssa.Value
				if cc.IsInvoke() && cc.Method.Name() == "newGraphNode" {
					w, o = cc.Args[0], cc.Args[1]
				} else if an.CalleeName(k) == "(*dig.Scope).newGraphNode" {
					w, o = cc.Args[1], cc.Args[2]
				} else {
					return
				}
				found = true
				obj := an.Norm(w)
				obj = strings.TrimSuffix(strings.TrimPrefix(obj, "iface("), ")")
				on := an.Norm(o)
				good := on == obj+".orders" || on == strings.TrimPrefix(obj, "&")+".orders" || "*"+on == obj+".orders"
				if !good {
					// &pg vs new:pg.orders
					good = strings.TrimPrefix(on, "*") == strings.TrimPrefix(obj, "new:")+".orders" || on == obj+".orders"
				}
				c.Check(good, rule, "(b) "+nm+" registers the node with its own orders map", obj+" / "+on, "the orders map "+on+" does not belong to the node "+obj, in, nil)
			})
			c.Check(found, rule, "(b) "+nm+" adds its node to the graph", "newGraphNode call", nm+" no longer adds a graph node: its dependencies are invisible to cycle detection", nil, nil)
		}
		// (c) in Scope.Scope itself, or in a helper it calls with (parent, child)
		top := c.Fn(rule, "(*dig.Scope).Scope")
		if top == nil {
			return
		}
		sc, parent, child := top, "p:s", "dig.newScope()"
		var loop *rangeLoop
		for _, l := range rangeLoops(sc) {
			if l.over == parent+".gh.nodes" {
				loop = l
			}
		}
		if loop == nil {
			an.Instrs(top, func(in ssa.Instruction) {
				k, ok := in.(*ssa.Call)
				if !ok || loop != nil {
					return
				}
				h := an.StaticCallee(k)
				if h == nil || !c.P.InModule(h) || h == top {
					return
				}
				var pe, ce string
				for i, a := range k.Common().Args {
					if i >= len(h.Params) {
						break
					}
					switch an.Norm(a) {
					case "p:s":
						pe = "p:" + an.CanonParam(h.Params[i])
					case "dig.newScope()":
						ce = "p:" + an.CanonParam(h.Params[i])
					}
				}
				if pe == "" || ce == "" {
					return
				}
				for _, l := range rangeLoops(h) {
					if l.over == pe+".gh.nodes" {
						sc, parent, child, loop = h, pe, ce, l
					}
				}
			})
		}
		if loop == nil {
			c.BadAt(rule, "(c) Scope.Scope copies the parent's graph nodes", "no loop over s.gh.nodes", c.P.Pos(sc.Pos()), nil)
			return
		}
		c.See(sc)
		okCopy := false
		for b := range loop.body {
			for _, in := range b.Instrs {
				if st, ok := in.(*ssa.Store); ok && strings.HasSuffix(an.Norm(st.Addr), ".gh.nodes") && strings.HasPrefix(an.Norm(st.Val), "append(") && strings.HasPrefix(an.Norm(st.Addr), "&"+child) {
					if hit, _ := an.PathTo(sc, loop.header.Succs[0].Instrs[0], func(i ssa.Instruction) bool { return i.Block() == loop.header }, an.NewGates().AddInstr(st)); hit == nil || st.Block() == loop.header.Succs[0] {
						okCopy = true
					}
				}
			}
		}
		c.Check(okCopy && len(loop.earlyExits()) == 0, rule, "(c) Scope.Scope copies every graph node of the parent", "append for each node, no early exit", "not every parent node is copied into the child's graph", loop.header.Instrs[0], nil)
		for _, t := range types_ {
			if strings.HasPrefix(t, "?") {
				continue
			}
			cons := "(c) Scope.Scope copies the order of " + t + " nodes to the child scope"
			good := false
			var at ssa.Instruction
			for b := range loop.body {
				for _, in := range b.Instrs {
					ta, ok := in.(*ssa.TypeAssert)
					if !ok || !strings.HasSuffix(an.Norm(ta.X), ".Wrapped") {
						continue
					}
					if strings.ReplaceAll(ta.AssertedType.String(), an.ModPath, "dig") != t {
						continue
					}
					at = in
					// on the ok edge an order copy for (parent s, child) happens
					okEdges := an.BoolEdges(sc, func(v ssa.Value) bool {
						ex, isEx := v.(*ssa.Extract)
						return isEx && ex.Tuple == ssa.Value(ta) && ex.Index == 1
					}, true)
					val := ssa.Value(ta)
					if ta.CommaOk {
						val = nil
					}
					an.Instrs(sc, func(i2 ssa.Instruction) {
						copyOK := false
						switch x := i2.(type) {
						case *ssa.Call:
							if an.CalleeName(x) == "(*dig.constructorNode).CopyOrder" && an.Norm(x.Common().Args[1]) == parent && an.Norm(x.Common().Args[2]) == child {
								recv := an.Resolve(x.Common().Args[0])
								if ex, isEx := recv.(*ssa.Extract); isEx && ex.Tuple == ssa.Value(ta) {
									copyOK = copyOrderBodyOK(c)
								}
								if recv == val {
									copyOK = copyOrderBodyOK(c)
								}
							}
						case *ssa.MapUpdate:
							m := an.Norm(x.Map)
							if strings.HasSuffix(m, ".orders") && an.Norm(x.Key) == child && an.Norm(x.Value) == m+"["+parent+"]" && strings.Contains(m, an.Norm(ta)) {
								copyOK = true
							}
						}
						if !copyOK {
							return
						}
						if len(okEdges) > 0 {
							if hit, _ := an.PathTo(sc, nil, an.IsInstr(i2), an.NewGates().AddEdges(okEdges...)); hit != nil {
								return
							}
							// and the ok edge leads to it unconditionally
							for _, e := range okEdges {
								tgt := e.From.Succs[e.Succ]
								if hit, _ := an.PathTo(sc, tgt.Instrs[0], func(i ssa.Instruction) bool { return i.Block() == loop.header }, an.NewGates().AddInstr(i2)); hit != nil && tgt != i2.Block() {
									return
								}
							}
						}
						good = true
					})
				}
			}
			if good {
				c.OK(rule, cons, "orders[child] = orders[parent] on the type's branch", at)
			} else {
				c.Bad(rule, cons, "the child scope holds the parent's "+t+" nodes but their orders map gets no entry for the child: Order(child) reads 0, fabricating an edge to node 0 - spurious or missed cycles in scopes created after the registration", loop.header.Instrs[0], nil)
			}
		}
	}
}

func copyOrderBodyOK(c *an.Ctx) bool {
	fn := c.P.Func("(*dig.constructorNode).CopyOrder")
	if fn == nil {
		return false
	}
	ok := false
	an.Instrs(fn, func(in ssa.Instruction) {
		if mu, isMU := in.(*ssa.MapUpdate); isMU && an.Norm(mu.Map) == "p:n.orders" && an.Norm(mu.Key) == "p:child" && an.Norm(mu.Value) == "p:n.orders[p:parent]" {
			ok = true
		}
	})
	return ok
}

// ruleDFS: termination of the cycle search.
func ruleDFS(rule string) RuleFn {
	return func(c *an.Ctx) {
		c.Rule(rule, "DFS termination in internal/graph.isAcyclic: the Visited mark of u is stored before the edge loop (before EdgesFrom is even asked), the function returns at once for a visited node, and the recursive call is dominated by the !Visited edge for the successor; IsAcyclic starts a search from every node index below g.Order()")
		fn := c.P.Func("dig/internal/graph.isAcyclic")
		if fn == nil {
			c.Und(rule, "anchor internal/graph.isAcyclic", "function not found")
			return
		}
		c.See(fn)
		var mark *ssa.Store
		an.Instrs(fn, func(in ssa.Instruction) {
			if st, ok := in.(*ssa.Store); ok && an.Norm(st.Val) == "true" && strings.HasSuffix(an.Norm(st.Addr), "p:info[p:u].Visited") {
				mark = st
			}
		})
		edgesCall := invokeNamed(fn, "EdgesFrom")
		if mark == nil || len(edgesCall) != 1 {
			c.BadAt(rule, "isAcyclic marks the node visited before exploring it", "no store info[u].Visited = true or no EdgesFrom call", c.P.Pos(fn.Pos()), nil)
			return
		}
		if hit, _ := an.PathTo(fn, nil, an.IsInstr(edgesCall[0]), an.NewGates().AddInstr(mark)); hit != nil {
			c.Bad(rule, "isAcyclic marks the node visited before exploring it", "edges are explored before the node is marked: the search can revisit it without bound", edgesCall[0], nil)
		} else {
			c.OK(rule, "isAcyclic marks the node visited before exploring it", "mark dominates EdgesFrom", mark)
		}
		var rec []*ssa.Call
		for _, k := range methodCalls(fn, "dig/internal/graph.isAcyclic") {
			rec = append(rec, k)
		}
		for _, k := range rec {
			v := an.Norm(k.Common().Args[1])
			g := an.NewGates().AddEdges(an.EdgesWhere(fn, func(f an.Fact) bool {
				return strings.HasPrefix(f.S, "!") && strings.HasSuffix(f.S, "p:info["+v+"].Visited")
			})...)
			if hit, path := an.PathTo(fn, nil, an.IsInstr(k), g); hit != nil || g.Len() == 0 {
				c.Bad(rule, "isAcyclic recurses only into unvisited successors", "the recursive call is not guarded by !info[v].Visited", k, an.BlockPath(c.P, path))
			} else {
				c.OK(rule, "isAcyclic recurses only into unvisited successors", "guarded", k)
			}
		}
		c.Floor(rule, "recursive calls in isAcyclic", len(rec), 1)
		// the search goes on with the next successor unless the recursion FOUND a cycle: a return of the
		// recursive call's result is dominated by the non-empty test of that result
		for _, k := range rec {
			nonEmpty := an.EdgesWhere(fn, func(f an.Fact) bool {
				return f.S == "(len("+an.Norm(k)+") > 0)" || f.S == "(len("+an.Norm(k)+") != 0)" || f.S == "("+an.Norm(k)+" != nil)"
			})
			bad := false
			an.Instrs(fn, func(in ssa.Instruction) {
				r, ok := in.(*ssa.Return)
				if !ok || len(r.Results) != 1 || an.Norm(r.Results[0]) != an.Norm(k) {
					return
				}
				if hit, _ := an.PathTo(fn, k, an.IsInstr(r), an.NewGates().AddEdges(nonEmpty...)); hit != nil {
					bad = true
				}
			})
			c.Check(!bad, rule, "isAcyclic explores every successor unless a cycle was found", "return cycle only if len(cycle) > 0", "the search returns the recursion's result although it is empty: the remaining successors of the node are never explored (cycles through them are missed) and the node stays marked as on the stack", k, nil)
		}
		// entry guard
		eg := an.EdgesWhere(fn, func(f an.Fact) bool {
			return !strings.HasPrefix(f.S, "!") && strings.HasSuffix(f.S, "p:info[p:u].Visited")
		})
		okEntry := false
		for _, e := range eg {
			tgt := e.From.Succs[e.Succ]
			if _, ok := tgt.Instrs[len(tgt.Instrs)-1].(*ssa.Return); ok {
				okEntry = true
			}
		}
		c.Check(okEntry, rule, "isAcyclic returns at once for a visited node", "entry guard", "no entry guard on Visited", nil, nil)
		// IsAcyclic covers all nodes
		if top := c.P.Func(isAcyclicName); top != nil {
			c.See(top)
			okLoop := len(an.EdgesWhere(top, an.FactIs("(φt"+"", ""))) >= 0
			okLoop = false
			an.Instrs(top, func(in ssa.Instruction) {
				if iff, ok := in.(*ssa.If); ok {
					s := an.CondString(iff.Cond, false)
					if strings.HasSuffix(s, " < p:g.Order())") {
						okLoop = true
					}
				}
			})
			okStart := false
			for _, k := range methodCalls(top, "dig/internal/graph.isAcyclic") {
				g0 := an.Norm(k.Common().Args[0])
				if g0 != "p:g" {
					// the graph may travel in a local struct (search := cycleSearch{g: g, ...}; isAcyclic(search.g, ...))
					g0 = an.Norm(localFieldValue(k.Common().Args[0]))
				}
				if os.Getenv("VERIF_DEBUG_FACTS") == "g-dfs" {
					fmt.Fprintln(os.Stderr, "g-dfs start:", an.Norm(k.Common().Args[1]), g0)
				}
				if strings.HasPrefix(an.Norm(k.Common().Args[1]), "φ") && g0 == "p:g" {
					okStart = true
				}
			}
			c.Check(okLoop && okStart, rule, "IsAcyclic searches from every node", "for i < g.Order(): isAcyclic(g, i, ...)", "IsAcyclic does not start a search from every node of the graph", nil, nil)
		}
	}
}

var _ = types.Typ

// ruleEdges (edge/runtime agreement, C05): the graph the cycle detector sees
// is a superset of what resolution can pick.
func ruleEdges(rule string) RuleFn {
	return func(c *an.Ctx) {
		c.Rule(rule, "X-edges (edge/runtime agreement): graphHolder.EdgesFrom and getParamOrder obtain providers only through the all-ancestors accessors (getAllValueProviders / getAllGroupProviders) of the holder's own scope gh.s - a superset of every provider that resolution in this view can pick through the per-scope accessors - report provider.Order(gh.s) for each without filtering, and a group parameter contributes its own node's order for gh.s; every constructor node and group node yields the edges of all of its parameters")
		type spec struct{ fn string }
		n := 0
		for _, nm := range []string{"(*dig.graphHolder).EdgesFrom", "dig.getParamOrder"} {
			fn := c.Fn(rule, nm)
			if fn == nil {
				continue
			}
			an.Instrs(fn, func(in ssa.Instruction) {
				k, ok := in.(*ssa.Call)
				if !ok {
					return
				}
				var mname string
				var recv ssa.Value
				cc := k.Common()
				if cc.IsInvoke() {
					mname, recv = cc.Method.Name(), cc.Value
				} else if f := an.StaticCallee(k); f != nil && f.Signature.Recv() != nil && an.IsDigNamed(f.Signature.Recv().Type(), "Scope") {
					mname, recv = f.Name(), cc.Args[0]
				} else {
					return
				}
				if !strings.Contains(mname, "Providers") {
					return
				}
				n++
				cons := nm + ": " + mname + " is an all-ancestors accessor on the holder's scope"
				good := strings.HasPrefix(mname, "getAll") && an.Norm(recv) == "p:gh.s"
				c.Check(good, rule, cons, an.Norm(recv)+"."+mname, "cycle detection asks "+an.Norm(recv)+"."+mname+": edges to providers in other enclosing scopes (which resolution can reach) are missing from the graph, so a cycle crossing scopes is not detected and resolution recurses without bound or fails late", k, nil)
			})
			// Order(gh.s) for every provider: a range loop over the providers calling Order with gh.s, no early exit
			okOrder := false
			for _, l := range rangeLoops(fn) {
				if !strings.Contains(l.over, "getAll") {
					continue
				}
				for b := range l.body {
					for _, in := range b.Instrs {
						if k, ok := in.(*ssa.Call); ok && k.Common().IsInvoke() && k.Common().Method.Name() == "Order" && an.Norm(k.Common().Args[0]) == "p:gh.s" {
							if len(l.earlyExits()) == 0 && b == l.header.Succs[0] {
								okOrder = true
							}
						}
					}
				}
			}
			c.Check(okOrder, rule, nm+": every provider contributes its order in the holder's scope", "for each provider: provider.Order(gh.s)", "not every provider found contributes an edge (filter, early exit or wrong scope's order)", nil, nil)
		}
		c.Floor(rule, "provider accessor calls in edge computation", n, 2)
		if fn := c.P.Func("dig.getParamOrder"); fn != nil {
			good := false
			an.Instrs(fn, func(in ssa.Instruction) {
				if lk, ok := in.(*ssa.Lookup); ok && strings.HasSuffix(an.Norm(lk.X), ".(dig.paramGroupedSlice)#0.orders") && an.Norm(lk.Index) == "p:gh.s" {
					good = true
				}
			})
			c.Check(good, rule, "getParamOrder: a group parameter contributes its own node's order for the holder's scope", "p.orders[gh.s]", "the group parameter's node order is not taken for gh.s", nil, nil)
		}
		if fn := c.P.Func("(*dig.graphHolder).EdgesFrom"); fn != nil {
			good := false
			for _, l := range rangeLoops(fn) {
				if strings.HasSuffix(l.over, ".(*dig.constructorNode)#0.paramList.Params") && len(l.earlyExits()) == 0 {
					for b := range l.body {
						for _, in := range b.Instrs {
							if k, ok := in.(*ssa.Call); ok && an.CalleeName(k) == "dig.getParamOrder" && an.Norm(k.Common().Args[0]) == "p:gh" {
								good = true
							}
						}
					}
				}
			}
			c.Check(good, rule, "EdgesFrom: a constructor node has the edges of all its parameters", "range w.paramList.Params: getParamOrder(gh, param)", "not every parameter of a constructor contributes edges", nil, nil)
		}
	}
}

// localFieldValue: v is a load of a field of a local struct variable that is stored exactly once in the function
// (`search := cycleSearch{g: g, ...}` ... `search.g`): the stored value stands for it. Anything else is returned as is.
func localFieldValue(v ssa.Value) ssa.Value {
	ld, ok := v.(*ssa.UnOp)
	if !ok || ld.Op != token.MUL {
		return v
	}
	fa, ok := ld.X.(*ssa.FieldAddr)
	if !ok {
		return v
	}
	al, ok := fa.X.(*ssa.Alloc)
	if !ok {
		return v
	}
	var val ssa.Value
	n := 0
	whole := false
	for _, r := range an.Referrers(al) {
		switch x := r.(type) {
		case *ssa.FieldAddr:
			if x.Field != fa.Field {
				continue
			}
			for _, r2 := range an.Referrers(x) {
				if st, ok := r2.(*ssa.Store); ok && st.Addr == ssa.Value(x) {
					val = st.Val
					n++
				}
			}
		case *ssa.Store:
			if x.Addr == ssa.Value(al) {
				whole = true
			}
		}
	}
	if n == 1 && !whole {
		return val
	}
	return v
}
