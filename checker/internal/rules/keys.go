package rules

import (
	"fmt"
	"go/token"
	"regexp"
	"sort"
	"strings"

	"golang.org/x/tools/go/ssa"

	"verif/checker/internal/an"
)

// keyLit is a composite literal of type dig.key.
type keyLit struct {
	fn     *ssa.Function
	al     *ssa.Alloc
	fields map[string]ssa.Value
}

func keyLiterals(c *an.Ctx) []*keyLit {
	var out []*keyLit
	for _, fn := range c.P.Funcs {
		an.Instrs(fn, func(in ssa.Instruction) {
			al, ok := in.(*ssa.Alloc)
			if !ok || !an.IsDigNamed(al.Type(), "key") {
				return
			}
			kl := &keyLit{fn: fn, al: al, fields: map[string]ssa.Value{}}
			whole := false
			for _, r := range an.Referrers(al) {
				switch x := r.(type) {
				case *ssa.FieldAddr:
					for _, rr := range an.Referrers(x) {
						if st, ok := rr.(*ssa.Store); ok && st.Addr == ssa.Value(x) {
							kl.fields[an.FieldName(x.X.Type(), x.Field)] = st.Val
						}
					}
				case *ssa.Store:
					if x.Addr == ssa.Value(al) {
						whole = true // a copy of another key (parameter spill), not a literal
					}
				}
			}
			if whole || len(kl.fields) == 0 {
				return
			}
			out = append(out, kl)
		})
	}
	return out
}

// ruleK1: shape of key literals and of the maps they index.
func ruleK1(rule string) RuleFn {
	return func(c *an.Ctx) {
		c.Rule(rule, "K1 key shape: every composite literal of type key sets t and at most one of name/group; in accessor methods of Scope and stagingContainerWriter the discriminator follows the accessor's kind (methods with Group/Grouped in their name build group keys, the other value accessors build name keys) from the accessor's own parameters; the maps values/decoratedValues are indexed only with name keys and groups/decoratedGroups only with group keys (providers/decorators take either, never both)")
		lits := keyLiterals(c)
		if !c.Floor(rule, "key literals", len(lits), 20) {
			return
		}
		byAlloc := map[*ssa.Alloc]*keyLit{}
		for i, kl := range lits {
			byAlloc[kl.al] = kl
			nm := an.ShortName(kl.fn)
			cons := fmt.Sprintf("key literal in %s", nm)
			_ = i
			_, hasT := kl.fields["t"]
			_, hasN := kl.fields["name"]
			_, hasG := kl.fields["group"]
			if !hasT {
				c.Bad(rule, cons+" sets t", "a key without a type identifies every type", kl.al, nil)
				continue
			}
			if hasN && hasG {
				c.Bad(rule, cons+" sets at most one of name/group", "a key with both name and group mixes the two namespaces", kl.al, nil)
				continue
			}
			// accessor kind
			recvOK := kl.fn.Signature.Recv() != nil && (an.IsDigNamed(kl.fn.Signature.Recv().Type(), "Scope") || an.IsDigNamed(kl.fn.Signature.Recv().Type(), "stagingContainerWriter"))
			mname := kl.fn.Name()
			if recvOK && (strings.Contains(mname, "Value") || strings.Contains(mname, "Group") || strings.Contains(mname, "Provider") || strings.Contains(mname, "Decorator")) && mname != "cycleDetectedError" {
				wantGroup := strings.Contains(mname, "Group")
				good := (wantGroup && hasG && !hasN) || (!wantGroup && hasN && !hasG)
				// the discriminator and type come from the accessor's own parameters
				var disc ssa.Value
				if wantGroup {
					disc = kl.fields["group"]
				} else {
					disc = kl.fields["name"]
				}
				fromParams := false
				if disc != nil {
					d, t := an.Norm(disc), an.Norm(kl.fields["t"])
					fromParams = strings.HasPrefix(d, "p:") && !strings.Contains(d, ".") && strings.HasPrefix(t, "p:") && !strings.Contains(t, ".")
				}
				c.Check(good && fromParams, rule, cons+" matches the accessor's kind", fmt.Sprintf("group=%v name=%v", hasG, hasN), fmt.Sprintf("accessor %s builds a key with name=%v group=%v from (%s): values and groups of the same type would share or swap keys", mname, hasN, hasG, an.Norm(disc)), kl.al, nil)
			} else {
				c.OK(rule, cons+" is well-formed", fmt.Sprintf("t, name=%v, group=%v", hasN, hasG), kl.al)
			}
		}
		// maps
		want := map[string]string{"Scope.values": "name", "Scope.decoratedValues": "name", "Scope.groups": "group", "Scope.decoratedGroups": "group", "stagingContainerWriter.values": "name", "stagingContainerWriter.groups": "group"}
		n := 0
		for _, fn := range c.P.Funcs {
			an.Instrs(fn, func(in ssa.Instruction) {
				var m, idx ssa.Value
				switch x := in.(type) {
				case *ssa.Lookup:
					m, idx = x.X, x.Index
				case *ssa.MapUpdate:
					m, idx = x.Map, x.Key
				default:
					return
				}
				var field string
				for f := range want {
					parts := strings.SplitN(f, ".", 2)
					if _, ok := an.FieldOf(an.Resolve(m), parts[0], parts[1]); ok {
						field = f
					}
				}
				if field == "" {
					return
				}
				n++
				cons := "index of " + field + " in " + an.ShortName(fn)
				var kl *keyLit
				r := idx
				if ld, ok := r.(*ssa.UnOp); ok && ld.Op == token.MUL {
					if al, ok := ld.X.(*ssa.Alloc); ok {
						kl = byAlloc[al]
					}
				}
				if kl == nil {
					c.Bad(rule, cons+" is a key literal of the map's kind", "indexed with "+an.Norm(idx)+", whose shape is not established", in, nil)
					return
				}
				_, has := kl.fields[want[field]]
				c.Check(has, rule, cons+" is a key literal of the map's kind", want[field]+" key", field+" is indexed with a key that does not set "+want[field], in, nil)
			})
		}
		c.Floor(rule, "indexed accesses of value/group maps", n, 10)
	}
}

var accessorNames = map[string]string{
	"getValue": "value", "getDecoratedValue": "value", "setValue": "value", "setDecoratedValue": "value",
	"getValueProviders": "value", "getAllValueProviders": "value", "getValueDecorator": "value",
	"getValueGroup": "group-elem", "getGroupProviders": "group-elem", "getAllGroupProviders": "group-elem", "getGroupDecorator": "group-elem",
	"getDecoratedValueGroup": "group-elem", "submitGroupedValue": "group-res", "submitDecoratedGroupedValue": "group-dec",
}

var reDisc = regexp.MustCompile(`^(.*)\.(Name|Group|name|group)$`)

// ruleK2: accessor arguments agree across the value path.
func ruleK2(rule string) RuleFn {
	return func(c *an.Ctx) {
		c.Rule(rule, "K2 key agreement (reader/writer table): at every call of a containerStore/containerWriter accessor outside the accessor implementations themselves, the (discriminator, type) arguments are fields of one and the same IR object B: value accessors take (B.Name, B.Type) or (B.Name, as) for as ranging over B.As; group accessors called for a paramGroupedSlice take (B.Group, B.Type.Elem()); the decorated-group lookup and store take the element type too (B.Group, B.Type.Elem()), because the slice types declared by a decorator and by its consumers need not coincide; resultGrouped submits members under (B.Group, B.Type) or (B.Group, as∈B.As); stagingContainerWriter.Commit and newErrMissingTypes pass the components of one key k (k.name|k.group, k.t resp. a suggested type)")
		n := 0
		for _, fn := range c.P.Funcs {
			// skip the accessor implementations and pure forwarders
			if fn.Signature.Recv() != nil && (an.IsDigNamed(fn.Signature.Recv().Type(), "Scope")) {
				if _, isAcc := accessorNames[fn.Name()]; isAcc {
					continue
				}
			}
			an.Instrs(fn, func(in ssa.Instruction) {
				k, ok := in.(ssa.CallInstruction)
				if !ok {
					return
				}
				cc := k.Common()
				var mname string
				var args []ssa.Value
				if cc.IsInvoke() && (an.IsDigNamed(cc.Value.Type(), "containerStore") || an.IsDigNamed(cc.Value.Type(), "containerWriter")) {
					mname, args = cc.Method.Name(), cc.Args
				} else if f := an.StaticCallee(k); f != nil && f.Signature.Recv() != nil && an.IsDigNamed(f.Signature.Recv().Type(), "Scope") {
					mname, args = f.Name(), cc.Args[1:]
				} else {
					return
				}
				kind, isAcc := accessorNames[mname]
				if !isAcc || len(args) < 2 {
					return
				}
				n++
				a0, a1 := an.Norm(args[0]), an.Norm(args[1])
				cons := fmt.Sprintf("%s(%s, %s) in %s", mname, a0, a1, an.ShortName(fn))
				m := reDisc.FindStringSubmatch(a0)
				if m == nil {
					c.Bad(rule, cons, "the discriminator argument is not a Name/Group field of an IR object", in, nil)
					return
				}
				base, disc := m[1], m[2]
				isAs := func(s string) bool {
					return strings.HasPrefix(s, base+".As[")
				}
				good := false
				why := ""
				switch kind {
				case "value":
					switch {
					case disc == "Name" && (a1 == base+".Type" || isAs(a1)):
						good = true
					case disc == "name" && (a1 == base+".t" || fn.Name() == "newErrMissingTypes"):
						good = true
					default:
						why = "a value accessor must receive (B.Name, B.Type | as in B.As)"
					}
				case "group-elem":
					if disc == "Group" && a1 == base+".Type.Elem()" {
						good = true
					} else {
						why = "a group accessor on the consuming side must receive (B.Group, B.Type.Elem())"
					}
				case "group-dec":
					// a decorated group is one slice; it is filed under the group's ELEMENT type, the only type the decorator
					// and its consumers are guaranteed to share (each may declare its own slice type for the same elements)
					if disc == "Group" && a1 == base+".Type.Elem()" {
						good = true
					} else {
						why = "a decorated group must be stored under (B.Group, B.Type.Elem()): keyed by the slice type the decorator happens to declare, it is not found by a consumer that declares another slice type of the same elements (type Strs []string vs []string) and that consumer silently gets the undecorated group"
					}
				case "group-res":
					switch {
					case disc == "Group" && (a1 == base+".Type" || isAs(a1)):
						good = true
					case disc == "group" && a1 == base+".t":
						good = true
					default:
						why = "a group result must be submitted under (B.Group, B.Type | as in B.As)"
					}
				}
				// value accessors must not be fed a Group and vice versa
				if kind == "value" && (disc == "Group" || disc == "group") {
					good, why = false, "a value accessor is called with a group name"
				}
				if kind != "value" && (disc == "Name" || disc == "name") {
					good, why = false, "a group accessor is called with a value name"
				}
				c.Check(good, rule, cons, "agrees with the table", why+": the key under which this site reads/writes differs from the key its counterpart uses", in, nil)
			})
		}
		c.Floor(rule, "accessor call sites", n, 22)
	}
}

// ruleK3: group names are never empty where they enter the IR.
func ruleK3(rule string) RuleFn {
	return func(c *an.Ctx) {
		c.Rule(rule, "K3: key{t, group:\"\"} is key{t, name:\"\"} in the shared providers/decorators maps, so a group name must be non-empty wherever it enters the IR: every value stored into paramGroupedSlice.Group / resultGrouped.Group is the Name of a parseGroupString result on that call's nil-error edge, and either parseGroupString returns a nil error only when the name is non-empty or the site itself tests the name")
		pg := c.Fn(rule, "dig.parseGroupString")
		if pg == nil {
			return
		}
		// does parseGroupString guarantee a non-empty name? The test must be about the value that is
		// returned as Name: the field itself (with no later store into it) or the very value stored.
		guarantee := true
		nn := 0
		var nameStores []*ssa.Store
		stored := map[string]bool{}
		an.Instrs(pg, func(in ssa.Instruction) {
			if st, ok := in.(*ssa.Store); ok {
				if fa, ok := st.Addr.(*ssa.FieldAddr); ok && an.FieldName(fa.X.Type(), fa.Field) == "Name" && an.IsDigNamed(fa.X.Type(), "group") {
					nameStores = append(nameStores, st)
					stored[an.Norm(an.Resolve(st.Val))] = true
				}
			}
		})
		reField := regexp.MustCompile(`^\((?:len\()?(new:[A-Za-z_]+\.Name)\)? (?:!= ""|> 0)\)$`)
		reVal := regexp.MustCompile(`^\((?:len\()?(.*?)\)? (?:!= ""|> 0)\)$`)
		nameTested := func(f an.Fact) bool {
			if reField.MatchString(f.S) {
				return true
			}
			if m := reVal.FindStringSubmatch(f.S); m != nil && len(stored) == 1 && stored[m[1]] {
				return true
			}
			return false
		}
		an.Instrs(pg, func(in ssa.Instruction) {
			r, ok := in.(*ssa.Return)
			if !ok || isErrorExit(r) {
				return
			}
			nn++
			edges := an.EdgesWhere(pg, nameTested)
			g := an.NewGates().AddEdges(edges...)
			if g.Len() == 0 {
				guarantee = false
				return
			}
			if hit, _ := an.PathTo(pg, nil, an.IsInstr(r), g); hit != nil {
				guarantee = false
			}
			// no store into Name after the test
			for _, e := range edges {
				for _, st := range nameStores {
					first := e.From.Succs[e.Succ].Instrs[0]
					if first == ssa.Instruction(st) {
						guarantee = false
					} else if hit, _ := an.PathTo(pg, first, an.IsInstr(st), nil); hit != nil {
						guarantee = false
					}
				}
			}
		})
		if nn == 0 {
			guarantee = false
		}
		n := 0
		for _, fn := range c.P.Funcs {
			an.Instrs(fn, func(in ssa.Instruction) {
				st, ok := in.(*ssa.Store)
				if !ok {
					return
				}
				fa, ok := st.Addr.(*ssa.FieldAddr)
				if !ok || an.FieldName(fa.X.Type(), fa.Field) != "Group" {
					return
				}
				if !an.IsDigNamed(fa.X.Type(), "paramGroupedSlice") && !an.IsDigNamed(fa.X.Type(), "resultGrouped") {
					return
				}
				n++
				cons := "group name entering the IR in " + an.ShortName(fn) + " is non-empty"
				v := an.Resolve(st.Val)
				s := an.Norm(v)
				mm := regexp.MustCompile(`^dig\.parseGroupString\((.*)\)#0\.Name$`).FindStringSubmatch(s)
				if mm == nil {
					c.Bad(rule, cons, "the group name "+s+" is not the Name parsed by parseGroupString", st, nil)
					return
				}
				if guarantee {
					c.OK(rule, cons, "parseGroupString rejects empty names", st)
					return
				}
				// site-level test
				g := an.NewGates().AddEdges(an.EdgesWhere(fn, func(f an.Fact) bool {
					return f.S == "("+s+" != \"\")" || f.S == "(len("+s+") > 0)"
				})...)
				ret, _ := an.PathTo(fn, st, func(i ssa.Instruction) bool {
					r, ok := i.(*ssa.Return)
					return ok && !isErrorExit(r)
				}, g)
				if g.Len() > 0 && ret == nil {
					c.OK(rule, cons, "the site rejects empty names", st)
					return
				}
				c.Bad(rule, cons, "a group tag/option with an empty name (\",flatten\", \",soft\") is accepted: its key equals the unnamed value key of the same type, so a plain parameter finds a 'provider' that never stores a value (reflect: Call using zero Value argument)", st, nil)
			})
		}
		c.Floor(rule, "stores of a group name into the IR", n, 3)
	}
}

// ruleDupKey (G-dupkey) and name/group exclusion.
func ruleDupKey(rule string) RuleFn {
	return func(c *an.Ctx) {
		c.Rule(rule, "G-dupkey: in connectionVisitor.Visit every name key (the result's own type and each As type) is passed to checkKey and a non-nil verdict stops the walk with that error; checkKey rejects a key already in this constructor's keyPaths and a key for which the home scope already has providers; the visitor's scope is the home scope of the registration (root for exported constructors); group keys bypass checkKey. Name/group exclusion: provideOptions.Validate, newResultGrouped and newParamGroupedSlice return nil only when not both a name and a group are given, and Provide runs provide only after Validate succeeded")
		visit := c.Fn(rule, "(dig.connectionVisitor).Visit")
		ck := c.Fn(rule, "(dig.connectionVisitor).checkKey")
		if visit == nil || ck == nil {
			return
		}
		nName := 0
		for _, kl := range keyLiterals(c) {
			if kl.fn != visit {
				continue
			}
			if _, ok := kl.fields["name"]; !ok {
				continue
			}
			nName++
			// every load of this literal (after its stores) feeds checkKey
			passed := false
			for _, r := range an.Referrers(kl.al) {
				if ld, ok := r.(*ssa.UnOp); ok && ld.Op == token.MUL {
					for _, rr := range an.Referrers(ld) {
						if k, ok := rr.(*ssa.Call); ok && an.StaticCallee(k) == ck {
							// a non-nil result is stored to *cv.err and the walk stops
							ne := an.NonNilErrEdges(visit, k, -1)
							okStop := false
							for _, e := range ne {
								tgt := e.From.Succs[e.Succ]
								stored := false
								for _, in := range tgt.Instrs {
									if st, ok := in.(*ssa.Store); ok && an.Norm(st.Addr) == "p:cv.err" && an.Resolve(st.Val) == ssa.Value(k) {
										stored = true
									}
								}
								if stored {
									okStop = true
								}
							}
							if okStop {
								passed = true
							}
						}
					}
				}
			}
			c.Check(passed, rule, "Visit checks name key ("+an.Norm(kl.fields["name"])+", "+an.Norm(kl.fields["t"])+") for duplicates", "checkKey, error recorded", "a name key is registered without the duplicate check (or its verdict is dropped): the same type and name can be provided twice", kl.al, nil)
		}
		c.Floor(rule, "name keys in Visit", nName, 2)
		// checkKey consults keyPaths and providers
		var sawPaths, sawProv bool
		an.Instrs(ck, func(in ssa.Instruction) {
			lk, ok := in.(*ssa.Lookup)
			if !ok {
				return
			}
			m := an.Norm(lk.X)
			if m == "p:cv.keyPaths" && an.Norm(lk.Index) == "p:k" && lk.CommaOk {
				// ok edge returns an error
				edges := an.BoolEdges(ck, func(v ssa.Value) bool {
					ex, isEx := v.(*ssa.Extract)
					return isEx && ex.Tuple == ssa.Value(lk) && ex.Index == 1
				}, true)
				for _, e := range edges {
					rets := returnsFrom(ck, e.From.Succs[e.Succ].Instrs[0])
					all := len(rets) > 0
					for _, r := range rets {
						if !isErrorExit(r) {
							all = false
						}
					}
					if all && onlyReachableErr(ck, e) {
						sawPaths = true
					}
				}
			}
			if m == "p:cv.s.providers" && an.Norm(lk.Index) == "p:k" {
				edges := an.EdgesWhere(ck, an.FactIs("(len("+an.Norm(lk)+") > 0)"))
				for _, e := range edges {
					if onlyReachableErr(ck, e) {
						sawProv = true
					}
				}
			}
		})
		c.Check(sawPaths, rule, "checkKey rejects a key this constructor already produces", "keyPaths hit -> error", "a constructor can list the same type and name twice among its results", nil, nil)
		c.Check(sawProv, rule, "checkKey rejects a key the home scope already provides", "providers hit -> error", "a second constructor for the same type and name in the same scope is accepted", nil, nil)
		// keyPaths is recorded for every checked key
		rec := false
		for _, cl := range ck.AnonFuncs {
			an.Instrs(cl, func(in ssa.Instruction) {
				if mu, ok := in.(*ssa.MapUpdate); ok && strings.HasSuffix(an.Norm(mu.Map), "cv.keyPaths") && an.Norm(mu.Key) == "p:k" {
					rec = true
				}
			})
		}
		an.Instrs(ck, func(in ssa.Instruction) {
			if mu, ok := in.(*ssa.MapUpdate); ok && an.Norm(mu.Map) == "p:cv.keyPaths" && an.Norm(mu.Key) == "p:k" {
				rec = true
			}
		})
		c.Check(rec, rule, "checkKey records the key for this constructor", "keyPaths[k] = path", "checked keys are not recorded: they are neither detected as in-constructor duplicates nor registered as provided", nil, nil)
		// home scope
		if prov := c.Fn(rule, "(*dig.Scope).provide"); prov != nil {
			subs := an.CallsNamed(prov, "(*dig.Scope).appendSubscopes")
			fav := an.CallsNamed(prov, "(*dig.Scope).findAndValidateResults")
			if len(subs) == 1 && len(fav) == 1 {
				c.Check(an.Norm(fav[0].Common().Args[0]) == an.Norm(subs[0].Common().Args[0]), rule, "duplicates are checked against the registration's home scope", an.Norm(fav[0].Common().Args[0]), "findAndValidateResults runs on "+an.Norm(fav[0].Common().Args[0])+", not the home scope "+an.Norm(subs[0].Common().Args[0]), fav[0], nil)
				// and the providers map updated is the same scope's
				for _, e := range directWrites(prov) {
					if mu, ok := e.in.(*ssa.MapUpdate); ok && e.field == "Scope.providers" && restoreLoop(mu) == nil {
						c.Check(e.base == an.Norm(subs[0].Common().Args[0]), rule, "the constructor is registered in the home scope's providers", e.base, "providers of "+e.base+" are updated, not the home scope's", e.in, nil)
					}
				}
			}
			if fv := c.Fn(rule, "(*dig.Scope).findAndValidateResults"); fv != nil {
				ok := false
				an.Instrs(fv, func(in ssa.Instruction) {
					if st, isSt := in.(*ssa.Store); isSt && strings.HasSuffix(an.Norm(st.Addr), ".s") && an.Norm(st.Val) == "p:s" {
						if fa, ok := st.Addr.(*ssa.FieldAddr); !ok || !an.IsDigNamed(fa.X.Type(), "connectionVisitor") {
							return
						}
						ok = true
					}
				})
				c.Check(ok, rule, "the visitor checks against the receiver scope", "connectionVisitor{s: s}", "the visitor's scope is not the receiver", nil, nil)
			}
		}
		// exclusion
		if v := c.Fn(rule, "(*dig.provideOptions).Validate"); v != nil {
			g := an.NewGates().AddEdges(an.EdgesWhere(v, an.FactIs("(len(p:o.Group) == 0)", "(len(p:o.Name) == 0)", "(p:o.Group == \"\")", "(p:o.Name == \"\")"))...)
			bad := false
			an.Instrs(v, func(in ssa.Instruction) {
				if r, ok := in.(*ssa.Return); ok && !isErrorExit(r) {
					if hit, _ := an.PathTo(v, nil, an.IsInstr(r), g); hit != nil {
						bad = true
					}
				}
			})
			c.Check(!bad && g.Len() >= 2, rule, "Validate rejects Name together with Group", "nil only if one of them is empty", "provideOptions.Validate can accept a name together with a group", nil, nil)
		}
		if p := c.Fn(rule, "(*dig.Scope).Provide"); p != nil {
			vs := an.CallsNamed(p, "(*dig.provideOptions).Validate")
			ps := an.CallsNamed(p, "(*dig.Scope).provide")
			if len(vs) == 1 && len(ps) == 1 {
				g := an.NewGates().AddEdges(an.NilErrEdges(p, vs[0].(*ssa.Call), -1)...)
				hit, _ := an.PathTo(p, nil, an.IsInstr(ps[0]), g)
				c.Check(hit == nil && g.Len() > 0, rule, "Provide registers only after the options were validated", "provide dominated by Validate()==nil", "provide runs although option validation failed or was skipped", ps[0], nil)
			} else {
				c.BadAt(rule, "Provide registers only after the options were validated", "Validate or provide call missing", c.P.Pos(p.Pos()), nil)
			}
		}
		for _, nm := range []string{"dig.newResultGrouped", "dig.newParamGroupedSlice"} {
			f := c.Fn(rule, nm)
			if f == nil {
				continue
			}
			g := an.NewGates().AddEdges(an.EdgesWhere(f, an.FactIs(`(p:f.Tag.Get("name") == "")`))...)
			bad := false
			an.Instrs(f, func(in ssa.Instruction) {
				if r, ok := in.(*ssa.Return); ok && !isErrorExit(r) {
					if hit, _ := an.PathTo(f, nil, an.IsInstr(r), g); hit != nil {
						bad = true
					}
				}
			})
			c.Check(!bad && g.Len() > 0, rule, nm+" rejects a name tag on a group field", "nil only if name tag empty", nm+" can accept a field tagged with both name and group", nil, nil)
		}
	}
}

// onlyReachableErr: from edge e every reachable return is an error return.
func onlyReachableErr(fn *ssa.Function, e an.Edge) bool {
	first := e.From.Succs[e.Succ].Instrs[0]
	rets := returnsFrom(fn, first)
	if len(rets) == 0 {
		return false
	}
	allErr := true
	for _, r := range rets {
		if !isErrorExit(r) {
			allErr = false
		}
	}
	if allErr {
		return true
	}
	// flow-insensitively a success return is reachable; an unwrapped helper leaves `tmp = err; break` followed by
	// `if tmp != nil { return tmp }` behind - the threaded search knows which way that test goes on this path
	isSuccess := func(i ssa.Instruction) bool {
		r, ok := i.(*ssa.Return)
		return ok && !isErrorExit(r)
	}
	if isSuccess(first) {
		return false
	}
	// enter the target block across the edge itself, so that the first block is threaded too
	hit, _ := an.PathTo(fn, e.From.Instrs[len(e.From.Instrs)-1], isSuccess, an.NewGates().AddEdges(an.Edge{From: e.From, Succ: 1 - e.Succ}))
	if hit == nil {
		return true
	}
	// the verdict may travel through a boolean merged from several tests (`_, taken := m[k]; if !taken { _, taken =
	// seen[k] }; if taken {...}`): the path-sensitive explorer assumes the fact of the edge and follows the value
	res := an.PathSens(an.PSQuery{Fn: fn, StartEdge: &e, Target: func(i ssa.Instruction, _ *an.PEnv) bool { return isSuccess(i) }})
	return res.Found == nil && !res.Overflow
}

// ruleVisitExtract (X-visit-extract).
func ruleVisitExtract(rule string) RuleFn {
	return func(c *an.Ctx) {
		c.Rule(rule, "X-visit-extract: for each leaf result kind the set of key shapes that connectionVisitor.Visit registers equals the set of key shapes its Extract writes on the undecorated branches (compared as sets of normalised (discriminator, type) expressions relative to the result): resultSingle {(Name, Type), (Name, As[i])}, resultGrouped {(Group, Type), (Group, As[i])}. Needed because paramSingle.Build discards the ok of getValue after a successful provider call")
		visit := c.Fn(rule, "(dig.connectionVisitor).Visit")
		if visit == nil {
			return
		}
		reg := map[string]map[string]bool{"resultSingle": {}, "resultGrouped": {}}
		shape := func(s string) (kind, sh string) {
			for _, k := range []string{"resultSingle", "resultGrouped"} {
				pre := "p:res.(dig." + k + ")#0."
				if strings.HasPrefix(s, pre) {
					f := strings.TrimPrefix(s, pre)
					if i := strings.Index(f, "["); i > 0 {
						f = f[:i] + "[i]"
					}
					return k, f
				}
			}
			return "", s
		}
		for _, kl := range keyLiterals(c) {
			if kl.fn != visit {
				continue
			}
			var d ssa.Value
			if v, ok := kl.fields["name"]; ok {
				d = v
			} else {
				d = kl.fields["group"]
			}
			k1, s1 := shape(an.Norm(d))
			k2, s2 := shape(an.Norm(kl.fields["t"]))
			if k1 == "" || k1 != k2 {
				c.Bad(rule, "Visit registers keys built from the visited result", "key ("+s1+", "+s2+") is not built from one result object", kl.al, nil)
				continue
			}
			reg[k1]["("+s1+", "+s2+")"] = true
		}
		ext := map[string]map[string]bool{"resultSingle": {}, "resultGrouped": {}}
		for kind, recv := range map[string]string{"resultSingle": "p:rs.", "resultGrouped": "p:rt."} {
			fn := c.Fn(rule, "(dig."+kind+").Extract")
			if fn == nil {
				continue
			}
			an.Instrs(fn, func(in ssa.Instruction) {
				k, ok := in.(*ssa.Call)
				if !ok || !k.Common().IsInvoke() {
					return
				}
				m := k.Common().Method.Name()
				if m != "setValue" && m != "submitGroupedValue" {
					return
				}
				a0 := strings.TrimPrefix(an.Norm(k.Common().Args[0]), recv)
				a1 := strings.TrimPrefix(an.Norm(k.Common().Args[1]), recv)
				if i := strings.Index(a1, "["); i > 0 {
					a1 = a1[:i] + "[i]"
				}
				ext[kind]["("+a0+", "+a1+")"] = true
			})
		}
		for _, kind := range []string{"resultSingle", "resultGrouped"} {
			var a, b []string
			for s := range reg[kind] {
				a = append(a, s)
			}
			for s := range ext[kind] {
				b = append(b, s)
			}
			sort.Strings(a)
			sort.Strings(b)
			cons := kind + ": keys registered by Visit = keys written by Extract"
			if len(a) == 0 {
				c.Und(rule, cons, "no registered key shapes found")
				continue
			}
			c.Check(strings.Join(a, " ") == strings.Join(b, " "), rule, cons, strings.Join(a, " "), "Visit registers {"+strings.Join(a, " ")+"} but Extract writes {"+strings.Join(b, " ")+"}: a consumer finds a provider whose execution never stores the value it asks for (invalid reflect.Value), or a value nobody registered", nil, nil)
		}
	}
}

// ruleVisitRecords: every key built by connectionVisitor.Visit is recorded.
func ruleVisitRecords(rule string) RuleFn {
	return func(c *an.Ctx) {
		c.Rule(rule, "X-visit-records: in connectionVisitor.Visit every key literal (the result's own type and each As type, for single and grouped results) is recorded in keyPaths on every path from its construction to the next iteration or the return - either by a direct keyPaths[k] = path or through checkKey, whose deferred closure records unconditionally; findAndValidateResults returns exactly the recorded keys and provide registers the constructor under every returned key. Otherwise a value is stored under a key for which no provider is registered: consumers of that key never trigger the constructor")
		visit := c.Fn(rule, "(dig.connectionVisitor).Visit")
		ck := c.Fn(rule, "(dig.connectionVisitor).checkKey")
		if visit == nil || ck == nil {
			return
		}
		// checkKey records unconditionally: a defer registered at entry whose closure updates keyPaths[k]
		recOK := false
		an.Instrs(ck, func(in ssa.Instruction) {
			d, ok := in.(*ssa.Defer)
			if !ok || in.Block().Index != 0 {
				return
			}
			cl := an.StaticCallee(d)
			if cl == nil {
				return
			}
			an.Instrs(cl, func(i2 ssa.Instruction) {
				if mu, ok := i2.(*ssa.MapUpdate); ok && strings.HasSuffix(an.Norm(mu.Map), "cv.keyPaths") && an.Norm(mu.Key) == "p:k" && i2.Block().Index == 0 {
					recOK = true
				}
			})
		})
		n := 0
		for _, kl := range keyLiterals(c) {
			if kl.fn != visit {
				continue
			}
			n++
			var d ssa.Value
			if v, ok := kl.fields["name"]; ok {
				d = v
			} else {
				d = kl.fields["group"]
			}
			cons := "Visit records key (" + an.Norm(d) + ", " + an.Norm(kl.fields["t"]) + ")"
			// recording instructions using a load of this literal
			rec := an.NewGates()
			var lastStore ssa.Instruction
			for _, r := range an.Referrers(kl.al) {
				switch x := r.(type) {
				case *ssa.UnOp:
					for _, rr := range an.Referrers(x) {
						switch y := rr.(type) {
						case *ssa.MapUpdate:
							if strings.HasSuffix(an.Norm(y.Map), "cv.keyPaths") && y.Key == ssa.Value(x) {
								rec.AddInstr(y)
							}
						case *ssa.Call:
							if an.StaticCallee(y) == ck && recOK {
								rec.AddInstr(y)
							}
						}
					}
				case *ssa.FieldAddr:
					for _, rr := range an.Referrers(x) {
						if st, ok := rr.(*ssa.Store); ok {
							if lastStore == nil || (st.Block() == lastStore.Block() && indexOf(st.Block(), st) > indexOf(lastStore.Block(), lastStore)) {
								lastStore = st
							}
						}
					}
				}
			}
			if rec.Len() == 0 || lastStore == nil {
				c.Bad(rule, cons, "the key is built but never recorded in keyPaths: the constructor is not registered as a provider for it", kl.al, nil)
				continue
			}
			hit, path := an.PathTo(visit, lastStore, func(i ssa.Instruction) bool {
				if _, ok := i.(*ssa.Return); ok {
					return true
				}
				// reaching the construction of this literal again = next iteration
				return i == ssa.Instruction(kl.al)
			}, rec)
			if hit != nil {
				c.Bad(rule, cons, "a path from building the key to the next iteration/return skips recording it: the value is later stored under this key although no provider is registered for it, so consumers of the key never run the constructor (members lost, or 'missing type')", kl.al, an.BlockPath(c.P, path))
			} else {
				c.OK(rule, cons, "recorded on every path", kl.al)
			}
		}
		c.Floor(rule, "key literals in Visit", n, 4)
		// findAndValidateResults returns exactly the recorded keys
		if fv := c.Fn(rule, "(*dig.Scope).findAndValidateResults"); fv != nil {
			good := false
			for _, b := range fv.Blocks {
				for _, in := range b.Instrs {
					if mu, ok := in.(*ssa.MapUpdate); ok {
						k := an.Norm(mu.Key)
						if strings.HasPrefix(k, "next(range(makemap:") && strings.HasSuffix(k, "#1") {
							good = true
						}
					}
				}
			}
			c.Check(good, rule, "findAndValidateResults returns every recorded key", "keys[k] for k := range keyPaths", "the returned key set is not a copy of keyPaths", nil, nil)
		}
		// provide registers the node under every returned key: loop over keys with the providers update, no early exit
		if prov := c.Fn(rule, "(*dig.Scope).provide"); prov != nil {
			good := false
			for _, e := range directWrites(prov) {
				mu, ok := e.in.(*ssa.MapUpdate)
				if !ok || e.field != "Scope.providers" || restoreLoop(mu) != nil {
					continue
				}
				k := an.Norm(mu.Key)
				v := an.Norm(mu.Value)
				if strings.HasPrefix(k, "next(range(") && strings.Contains(k, "findAndValidateResults(") && strings.HasPrefix(v, "append(") {
					// the update is unconditional inside the range loop: its block is the loop body
					if mu.Block().Comment == "rangeiter.body" {
						good = true
					}
				}
			}
			c.Check(good, rule, "provide registers the constructor under every key of its results", "for k := range keys: providers[k] = append(providers[k], n)", "the constructor is not appended to the providers of every validated key", nil, nil)
		}
	}
}
