package rules

import (
	"fmt"
	"go/token"
	"go/types"
	"os"
	"regexp"
	"strings"

	"golang.org/x/tools/go/ssa"

	"verif/checker/internal/an"
)

// rulePresence: absent and empty provider lists are indistinguishable.
func rulePresence(rule string) RuleFn {
	return func(c *an.Ctx) {
		c.Rule(rule, "X-providers-presence: the compensation of a rejected Provide restores Scope.providers[k] to its saved value, which is the nil slice for a key that had no entry; that is 'no trace' only if no reader distinguishes an absent key from an empty list, so no lookup of Scope.providers uses the comma-ok form and no code ranges over the keys of the map to take decisions (knownTypes feeds only suggestions that are re-filtered by len(getValueProviders) > 0)")
		n := 0
		for _, fn := range c.P.Funcs {
			an.Instrs(fn, func(in ssa.Instruction) {
				lk, ok := in.(*ssa.Lookup)
				if !ok {
					return
				}
				if _, ok := an.FieldOf(an.Resolve(lk.X), "Scope", "providers"); !ok {
					return
				}
				n++
				cons := "lookup of Scope.providers in " + an.ShortName(fn) + " does not test key presence"
				if lk.CommaOk {
					c.Bad(rule, cons, "the lookup uses the comma-ok form: a key whose provider list was restored to nil after a rejected Provide is still 'present', so the rejected registration keeps blocking the key (\"already provided by\" nothing)", lk, nil)
				} else {
					c.OK(rule, cons, "value form; empty and absent behave alike", lk)
				}
			})
		}
		c.Floor(rule, "lookups of Scope.providers", n, 3)
	}
}

// ruleSetters: who may call the containerWriter setters.
func ruleSetters(rule string) RuleFn {
	return func(c *an.Ctx) {
		c.Rule(rule, "W-setters: values enter a scope's stores only as results of an execution - the containerWriter setters (setValue, setDecoratedValue, submitGroupedValue, submitDecoratedGroupedValue) are called only by resultSingle.Extract, resultGrouped.Extract and stagingContainerWriter.Commit; in particular resolution (param.Build and its helpers) never copies a value into another scope, so a value is always read from the scope that owns it and a nearer provider registered later is not shadowed by a stale copy")
		allowed := map[string]bool{"(dig.resultSingle).Extract": true, "(dig.resultGrouped).Extract": true, "(*dig.stagingContainerWriter).Commit": true}
		setters := map[string]bool{"setValue": true, "setDecoratedValue": true, "submitGroupedValue": true, "submitDecoratedGroupedValue": true}
		n := 0
		for _, fn := range c.P.Funcs {
			an.Instrs(fn, func(in ssa.Instruction) {
				k, ok := in.(ssa.CallInstruction)
				if !ok {
					return
				}
				cc := k.Common()
				var m string
				if cc.IsInvoke() && (an.IsDigNamed(cc.Value.Type(), "containerStore") || an.IsDigNamed(cc.Value.Type(), "containerWriter")) {
					m = cc.Method.Name()
				} else if f := an.StaticCallee(k); f != nil && f.Signature.Recv() != nil && (an.IsDigNamed(f.Signature.Recv().Type(), "Scope") || an.IsDigNamed(f.Signature.Recv().Type(), "stagingContainerWriter")) {
					m = f.Name()
				}
				if !setters[m] {
					return
				}
				n++
				nm := an.ShortName(fn)
				okOwner := allowed[nm] || privateHelperOf(c, fn, allowed, 0)
				c.Check(okOwner, rule, m+" called in "+nm, "result extraction / staged commit", m+" is called from "+nm+": a value is written into a scope's store outside result extraction (e.g. a lookup caching a value of an ancestor in the requesting scope): later lookups find the copy before the providers of a nearer scope", in, nil)
			})
		}
		c.Floor(rule, "setter call sites", n, 7)
	}
}

// ruleDryTotal: dryInvoker cannot fail.
func ruleDryTotal(rule string) RuleFn {
	return func(c *an.Ctx) {
		c.Rule(rule, "X-dry-total: dig.dryInvoker is total and looks only at the function's result types - it contains no panic and calls nothing but fn.Type(), Type.NumOut, Type.Out, reflect.Zero and builtins, and returns a slice of length NumOut(): whatever argument list the shared validation code built (dig never fills variadic parameters, so it may be shorter than NumIn), the dry container accepts exactly what reflect.Value.Call would have run")
		fn := c.Fn(rule, "dig.dryInvoker")
		if fn == nil {
			return
		}
		allowed := map[string]bool{"(reflect.Value).Type": true, "invoke reflect.Type.NumOut": true, "invoke reflect.Type.Out": true, "reflect.Zero": true, "builtin len": true, "builtin append": true}
		bad := false
		an.Instrs(fn, func(in ssa.Instruction) {
			switch x := in.(type) {
			case *ssa.Panic:
				bad = true
				c.Bad(rule, "dryInvoker is total", "dryInvoker panics on some input: a history accepted by a normal container is rejected (or crashes) in a dry one", in, nil)
			case ssa.CallInstruction:
				if !allowed[an.CalleeName(x)] {
					bad = true
					c.Bad(rule, "dryInvoker is total", "dryInvoker calls "+an.CalleeName(x)+": it inspects more than the result types and can fail where the real call would not (e.g. for variadic functions, whose last parameter dig never fills)", in, nil)
				}
			}
		})
		okLen := false
		an.Instrs(fn, func(in ssa.Instruction) {
			if ms, ok := in.(*ssa.MakeSlice); ok && strings.HasSuffix(an.Norm(ms.Len), ".NumOut()") {
				okLen = true
			}
		})
		if !bad {
			c.OK(rule, "dryInvoker is total", "only Type/NumOut/Out/Zero", fn.Blocks[0].Instrs[0])
		}
		c.Check(okLen, rule, "dryInvoker returns one value per result", "make([]reflect.Value, NumOut())", "the fake results are not sized by NumOut()", nil, nil)
	}
}

// ruleOptFlow: Name/Group/As reach every result of the constructor.
func ruleOptFlow(rule string) RuleFn {
	return func(c *an.Ctx) {
		c.Rule(rule, "X-optflow: the Name, Group and As options travel unchanged from Provide to every result node: provide copies opts.{Name,Group,As,Location,Callback} into constructorOptions; newConstructorNode copies them into resultOptions{Name,Group,As}; newResultList hands its options to newResult for every result; newResultObject hands them to every field; newResultObjectField passes on the very options it received, overriding only Name from a name tag (never a fresh literal that would drop As or Group); newResultSingle and the grouped branch of newResult iterate opts.As")
		type hop struct{ fn, addrSuffix, val string }
		for _, h := range []hop{
			{"(*dig.Scope).provide", "complit.ResultName", "p:opts.Name"},
			{"(*dig.Scope).provide", "complit.ResultGroup", "p:opts.Group"},
			{"(*dig.Scope).provide", "complit.ResultAs", "p:opts.As"},
			{"(*dig.Scope).provide", "complit.Location", "p:opts.Location"},
			{"dig.newConstructorNode", "complit.Name", "p:opts.ResultName"},
			{"dig.newConstructorNode", "complit.Group", "p:opts.ResultGroup"},
			{"dig.newConstructorNode", "complit.As", "p:opts.ResultAs"},
			{"(dig.provideNameOption).applyProvideOption", "p:opt.Name", "string(p:o)"},
			{"(dig.provideGroupOption).applyProvideOption", "p:opt.Group", "string(p:o)"},
			{"(dig.provideExportOption).applyProvideOption", "p:opts.Exported", "p:o.exported"},
		} {
			fn := c.Fn(rule, h.fn)
			if fn == nil {
				continue
			}
			found := false
			an.Instrs(fn, func(in ssa.Instruction) {
				st, ok := in.(*ssa.Store)
				if !ok || !(an.Norm(st.Val) == h.val || "string("+an.Norm(st.Val)+")" == h.val) {
					return
				}
				if strings.HasSuffix(an.Norm(st.Addr), h.addrSuffix) {
					found = true
				}
				// the literal may live in a named local instead of an anonymous composite literal
				if strings.HasPrefix(h.addrSuffix, "complit.") {
					if fa, ok := st.Addr.(*ssa.FieldAddr); ok && an.FieldName(fa.X.Type(), fa.Field) == strings.TrimPrefix(h.addrSuffix, "complit.") {
						if _, isLocal := fa.X.(*ssa.Alloc); isLocal {
							found = true
						}
					}
				}
			})
			c.Check(found, rule, h.fn+" forwards "+h.val, h.val+" -> "+h.addrSuffix, "the option value "+h.val+" is not forwarded to "+h.addrSuffix+": it silently has no effect on the registration", nil, nil)
		}
		// call-argument hops: options passed on unchanged
		type pass struct{ fn, callee, want string }
		for _, p := range []pass{
			{"dig.newResultList", "dig.newResult", "p:opts"},
			{"dig.newResultObject", "dig.newResultObjectField", "p:opts"},
			{"dig.newResult", "dig.newResultObject", "p:opts"},
			{"dig.newResult", "dig.newResultSingle", "p:opts"},
		} {
			fn := c.Fn(rule, p.fn)
			if fn == nil {
				continue
			}
			calls := methodCalls(fn, p.callee)
			good := len(calls) > 0
			for _, k := range calls {
				a := k.Common().Args
				if an.Norm(a[len(a)-1]) != p.want {
					good = false
				}
			}
			c.Check(good, rule, p.fn+" hands its options to "+p.callee+" unchanged", p.want, p.fn+" does not pass the options it received on to "+p.callee, nil, nil)
		}
		// newResultObjectField: the options cell is only ever updated field-wise (Name)
		if fn := c.Fn(rule, "dig.newResultObjectField"); fn != nil {
			calls := methodCalls(fn, "dig.newResult")
			good := len(calls) >= 1
			why := ""
			for _, call := range calls {
				arg := call.Common().Args[1]
				ld, ok := arg.(*ssa.UnOp)
				var cell *ssa.Alloc
				if ok && ld.Op == token.MUL {
					cell, _ = ld.X.(*ssa.Alloc)
				}
				if cell == nil {
					if an.Norm(arg) != "p:opts" {
						good, why = false, "newResult receives "+an.Norm(arg)
					}
				} else {
					for _, r := range an.Referrers(cell) {
						switch x := r.(type) {
						case *ssa.Store:
							if x.Addr == ssa.Value(cell) && an.Norm(x.Val) != "p:opts" {
								good, why = false, "the options are replaced wholesale by "+an.Norm(x.Val)+" (As and Group are dropped for tagged fields)"
							}
						case *ssa.FieldAddr:
							fname := an.FieldName(x.X.Type(), x.Field)
							for _, rr := range an.Referrers(x) {
								if st, ok := rr.(*ssa.Store); ok && st.Addr == ssa.Value(x) && fname != "Name" {
									// a group-tagged field may be routed through the option form: Group := the field's own group tag
									if fname == "Group" && strings.Contains(an.Norm(st.Val), ".Tag.Get(\"group\")") {
										continue
									}
									good, why = false, "field "+fname+" of the options is overwritten by "+an.Norm(st.Val)
								}
							}
						}
					}
				}
			}
			c.Check(good, rule, "newResultObjectField passes on the options it received, overriding only Name", "opts.Name = tag; newResult(f.Type, opts)", "a result-object field does not inherit the constructor's options: "+why, nil, nil)
		}
		// every kind of field receives the options: a group-tagged field is a result like any other
		if fn := c.Fn(rule, "dig.newResultObjectField"); fn != nil {
			withOpts := func(k ssa.CallInstruction) bool {
				for _, a := range k.Common().Args {
					if s := an.Norm(a); s == "p:opts" || s == "*new:opts" || s == "new:opts" || strings.HasPrefix(s, "p:opts.As") || strings.HasPrefix(s, "new:opts.As") {
						return true
					}
				}
				return false
			}
			// with a non-empty As list ...
			noAs := an.EdgesWhere(fn, func(ft an.Fact) bool {
				f := strings.ReplaceAll(ft.S, "new:opts", "p:opts")
				return f == "(len(p:opts.As) <= 0)" || f == "!(len(p:opts.As) > 0)" || f == "(len(p:opts.As) == 0)" || f == "!(len(p:opts.As) != 0)" || f == "(p:opts.As == nil)"
			})
			if nm := os.Getenv("VERIF_DEBUG_FACTS"); nm != "" {
				if dfn := c.P.Func(nm); dfn != nil {
					an.EdgesWhere(dfn, func(ft an.Fact) bool { fmt.Fprintln(os.Stderr, "fact:", ft.S); return false })
				}
			}
			gates := an.NewGates().AddEdges(noAs...)
			var builders []ssa.CallInstruction
			an.Instrs(fn, func(in ssa.Instruction) {
				if k, ok := in.(ssa.CallInstruction); ok && strings.HasPrefix(an.CalleeName(k), "dig.newResult") {
					builders = append(builders, k)
					if withOpts(k) {
						gates.AddInstr(in)
					}
				}
			})
			for _, k := range builders {
				if withOpts(k) {
					c.OK(rule, "newResultObjectField hands the options to "+an.CalleeName(k), "callee(..., opts)", k)
					continue
				}
				// ... no success return is reached from a builder that never saw the options, unless a builder that did comes in between
				hit, _ := an.PathTo(fn, k, func(i ssa.Instruction) bool {
					r, ok := i.(*ssa.Return)
					return ok && !isErrorExit(r)
				}, gates)
				c.Check(hit == nil, rule, "newResultObjectField hands the options to "+an.CalleeName(k), "with a non-empty As list the result is rebuilt by a call that receives the options", "the result built by "+an.CalleeName(k)+" for a result-object field never sees the constructor's options: dig.As given next to a field of this kind is silently dropped, although the same registration written with the option form (dig.Group + dig.As) honours it", k, nil)
			}
			c.Floor(rule, "result-building calls in newResultObjectField", len(builders), 2)
			// every field - group-tagged or not - goes through newResult, where the type checks live (no dig.In,
			// no error, no pointer to a result object ...): what dig.Group rejects, the group tag rejects
			var viaNewResult []ssa.Instruction
			for _, k := range builders {
				if an.CalleeName(k) == "dig.newResult" {
					viaNewResult = append(viaNewResult, k.(ssa.Instruction))
				}
			}
			hitS, _ := an.PathTo(fn, nil, func(i ssa.Instruction) bool {
				r, ok := i.(*ssa.Return)
				return ok && !isErrorExit(r)
			}, an.NewGates().AddInstr(viaNewResult...))
			c.Check(hitS == nil && len(viaNewResult) > 0, rule, "every result-object field passes the type checks of newResult", "newResult on every path to a success return", "a field of a result object (a group-tagged one) is accepted without newResult's type checks: struct{dig.Out; V T `group:\"g\"`} accepts result types (parameter objects, errors, pointers to result objects, nested result objects) that the same registration written with dig.Group(\"g\") rejects", hitS, nil)
			// a group-tagged field that is rebuilt through the option form carries its group: on the group-tag path,
			// newResult is reached only after opts.Group was set from the tag
			tagEdges := an.EdgesWhere(fn, func(ft an.Fact) bool {
				return ft.S == "(p:f.Tag.Get(\"group\") != \"\")" || ft.S == "!(p:f.Tag.Get(\"group\") == \"\")" || ft.S == "(len(p:f.Tag.Get(\"group\")) > 0)"
			})
			var setGroup []ssa.Instruction
			an.Instrs(fn, func(in ssa.Instruction) {
				if st, ok := in.(*ssa.Store); ok {
					if fa, ok := st.Addr.(*ssa.FieldAddr); ok && an.FieldName(fa.X.Type(), fa.Field) == "Group" && strings.Contains(an.Norm(st.Val), ".Tag.Get(\"group\")") {
						setGroup = append(setGroup, in)
					}
				}
			})
			for _, e := range tagEdges {
				start := e.From.Succs[e.Succ].Instrs[0]
				hit, _ := an.PathTo(fn, start, func(i ssa.Instruction) bool {
					k, ok := i.(ssa.CallInstruction)
					return ok && an.CalleeName(k) == "dig.newResult"
				}, an.NewGates().AddInstr(setGroup...))
				c.Check(hit == nil, rule, "a group-tagged field rebuilt through newResult carries its group", "opts.Group = tag before newResult on the group-tag path", "a group-tagged result-object field reaches newResult without its group: with dig.As the value is registered as a single value of the interface instead of a member of the group", hit, nil)
			}
		}
		// As is iterated where results are made
		for _, nm := range []string{"dig.newResultSingle", "dig.newResult"} {
			fn := c.Fn(rule, nm)
			if fn == nil {
				continue
			}
			good := false
			for _, l := range rangeLoops(fn) {
				if l.over == "p:opts.As" {
					good = true
				}
			}
			c.Check(good, rule, nm+" considers every As interface", "range opts.As", nm+" no longer iterates opts.As", nil, nil)
		}
	}
}

// ruleMapDeref: contradiction rule for pointer-valued map lookups.
func ruleMapDeref(rule string) RuleFn {
	return func(c *an.Ctx) {
		c.Rule(rule, "G-maplookup-deref (contradiction rule): when the result of a pointer-valued map lookup m[k] is dereferenced, the dereference is dominated by a successful comma-ok lookup of the same map and key or by a non-nil test of that result; a lookup that other code guards and this code dereferences unconditionally panics for an unknown key (e.g. a constructor id that is not part of the visualised graph)")
		n := 0
		for _, fn := range c.P.Funcs {
			an.Instrs(fn, func(in ssa.Instruction) {
				lk, ok := in.(*ssa.Lookup)
				if !ok || lk.CommaOk {
					return
				}
				if _, isMap := lk.X.Type().Underlying().(*types.Map); !isMap {
					return
				}
				if _, isPtr := lk.Type().Underlying().(*types.Pointer); !isPtr {
					return
				}
				for _, r := range an.Referrers(lk) {
					var deref ssa.Instruction
					switch x := r.(type) {
					case *ssa.FieldAddr:
						if x.X == ssa.Value(lk) {
							deref = x
						}
					case *ssa.UnOp:
						if x.Op == token.MUL && x.X == ssa.Value(lk) {
							deref = x
						}
					}
					if deref == nil {
						continue
					}
					n++
					m, k := an.Norm(lk.X), an.Norm(lk.Index)
					g := an.NewGates().AddEdges(an.EdgesWhere(fn, an.FactIs(m+"["+k+"]#1", "("+m+"["+k+"] != nil)"))...)
					cons := fmt.Sprintf("%s: %s[%s] is dereferenced only for a key known to be present", an.ShortName(fn), m, k)
					if hit, path := an.PathTo(fn, nil, an.IsInstr(deref), g); hit != nil || g.Len() == 0 {
						c.Bad(rule, cons, "the looked-up pointer is dereferenced on a path without a presence or nil test: nil pointer dereference for an unknown key", deref, an.BlockPath(c.P, path))
					} else {
						c.OK(rule, cons, "dominated by a presence test", deref)
					}
				}
			})
		}
		if n == 0 {
			c.OKAt(rule, "no pointer-valued map lookup is dereferenced without the comma-ok form", "0 sites", "-")
		}
	}
}

// ruleErrPropagates: a failure reported by a callee is never lost.
func ruleErrPropagates(rule string) RuleFn {
	return func(c *an.Ctx) {
		c.Rule(rule, "G-err-propagates (path-sensitive): in the resolution and execution code (param.go, the three executors, ExtractList), from the non-nil edge of the error result of a call into dig's own code or through a dig interface (provider.Call, decorator.Call, param.Build, BuildList, callGroupProviders, callGroupDecorators, ExtractList, shallowCheckDependencies, verifyAcyclic, newParamList) no return with a nil error is reachable while that error value is still the current one - except the zero-value returns of paramSingle.Build that G-optzero governs. A failure cannot be overwritten by a later success or dropped by a restructured loop")
		files := map[string]bool{}
		n := 0
		for _, fn := range c.P.Funcs {
			if fn.Pkg != c.P.Dig {
				continue
			}
			pos := c.P.Fset.Position(fn.Pos()).Filename
			base := pos[strings.LastIndex(pos, "/")+1:]
			if base != "param.go" && base != "constructor.go" && base != "decorate.go" && base != "invoke.go" && base != "result.go" {
				continue
			}
			files[base] = true
			if errResultIndex(fn) == -2 {
				continue
			}
			an.Instrs(fn, func(in ssa.Instruction) {
				k, ok := in.(*ssa.Call)
				if !ok {
					return
				}
				cc := k.Common()
				var idx int
				if cc.IsInvoke() {
					if !strings.HasPrefix(an.CalleeName(k), "invoke dig.") {
						return
					}
					sig := cc.Method.Type().(*types.Signature)
					res := sig.Results()
					if res.Len() == 0 || res.At(res.Len()-1).Type().String() != "error" {
						return
					}
					idx = res.Len() - 1
					if res.Len() == 1 {
						idx = -1
					}
				} else {
					callee := an.StaticCallee(k)
					if callee == nil || !c.P.InModule(callee) {
						return
					}
					idx = errResultIndex(callee)
					if idx == -2 {
						return
					}
				}
				ne := an.NonNilErrEdges(fn, k, idx)
				var errVal ssa.Value = k
				if idx >= 0 {
					errVal = nil
					for _, r := range an.Referrers(k) {
						if ex, ok := r.(*ssa.Extract); ok && ex.Index == idx {
							errVal = ex
						}
					}
				}
				if len(ne) == 0 {
					// never tested on a live branch: fine when the error is handed on as it is (returned, passed,
					// stored, merged), a violation when it is only compared under a condition that can never hold,
					// or not looked at at all
					handedOn := false
					if errVal != nil {
						live := an.Live(fn)
						for _, r := range an.Referrers(errVal) {
							if !live[r.Block()] {
								continue
							}
							switch r.(type) {
							case *ssa.BinOp, *ssa.DebugRef:
							default:
								handedOn = true
							}
						}
					}
					if handedOn {
						return
					}
					why, ignorable := ignoredErrorOK(an.ShortName(fn), an.CalleeName(k))
					cons := fmt.Sprintf("%s: a failure of %s is never lost", an.ShortName(fn), an.CalleeName(k))
					if ignorable {
						c.OK(rule, cons, "reasoned exception: "+why, k)
					} else {
						c.Bad(rule, cons, "the error "+an.CalleeName(k)+" returns is never looked at on any live branch (discarded, or compared only under a condition that cannot hold): what it rejects is accepted", k, nil)
					}
					return
				}
				n++
				cons := fmt.Sprintf("%s: a failure of %s is never lost", an.ShortName(fn), an.CalleeName(k))
				bad := false
				for _, e := range ne {
					e := e
					res := an.PathSens(an.PSQuery{Fn: fn, StartEdge: &e, Target: func(i ssa.Instruction, env *an.PEnv) bool {
						r, ok := i.(*ssa.Return)
						if !ok || i.Block().Comment == "recover" {
							return false
						}
						last := r.Results[len(r.Results)-1]
						unrelated := false
						if rv := env.Val(last); !env.KnownNil(last) {
							// a merged value that cannot be the failing error (none of its sources is that error, and
							// it is not a freshly made error either) means the failure was dropped for some older value
							if _, isPhi := rv.(*ssa.Phi); isPhi {
								unrelated = true
								for _, o := range an.Origins(rv) {
									if o == errVal || o == ssa.Value(k) {
										unrelated = false
									}
									switch x := o.(type) {
									case *ssa.MakeInterface, *ssa.Parameter, *ssa.FreeVar:
										unrelated = false
									case *ssa.Call:
										if strings.HasPrefix(an.CalleeName(x), "dig.newErr") {
											unrelated = false
										}
									}
								}
							}
						}
						if env.KnownNil(last) || unrelated {
							// the governed exception: zero value for an optional parameter
							if zk, isK := an.Resolve(env.Val(r.Results[0])).(*ssa.Call); isK && an.CalleeName(zk) == "reflect.Zero" && an.ShortName(fn) == "(dig.paramSingle).Build" {
								return false
							}
							return true
						}
						return false
					}, Kill: func(i ssa.Instruction, env *an.PEnv) bool {
						// a re-execution of the same call starts a new history for its error
						return false
					}})
					if res.Found != nil || res.Overflow {
						bad = true
						c.Bad(rule, cons, "after "+an.CalleeName(k)+" reported an error, a path reaches a successful return (the error is overwritten by a later call, or dropped): the consumer runs although a dependency failed or is missing", res.Found, an.BlockPath(c.P, res.Path))
						break
					}
				}
				// (b) the error is looked at before anything is reported as a success: from the call, every path to a
				// nil-error return crosses a nil-edge of this very error (re-executing the call starts afresh)
				if !bad {
					nilE := an.NilErrEdges(fn, k, idx)
					g := an.NewGates().AddEdges(nilE...).AddEdges(ne...).AddInstr(k)
					hit, path := an.PathTo(fn, k, func(i ssa.Instruction) bool {
						r, ok := i.(*ssa.Return)
						if !ok || i.Block().Comment == "recover" || len(r.Results) == 0 {
							return false
						}
						kc, isC := an.Resolve(r.Results[len(r.Results)-1]).(*ssa.Const)
						return isC && kc.IsNil() && isErrorType(r.Results[len(r.Results)-1])
					}, g)
					if hit != nil && len(nilE) > 0 {
						bad = true
						c.Bad(rule, cons, "a nil-error return is reachable after "+an.CalleeName(k)+" without its error having been tested: a failure is silently reported as success", hit, an.BlockPath(c.P, path))
					}
				}
				_ = errVal
				if !bad {
					c.OK(rule, cons, "non-nil edge leads only to error returns; no success return before the error was tested", k)
				}
			})
		}
		c.Floor(rule, "tested error results of dig-internal calls", n, 15)
	}
}

// ruleValueBlind: verdicts do not depend on the values user functions return.
func ruleValueBlind(rule string) RuleFn {
	return func(c *an.Ctx) {
		c.Rule(rule, "W-value-inspect: dig looks inside the reflect.Values that user functions produced (Len, Index, IsNil, IsZero, IsValid, Interface, Field, Elem, Int, String, ...) only where that is part of delivering them: resultList.ExtractList (error results), Scope.Invoke (the returned error), resultGrouped.Extract (flatten), resultObject.Extract (fields), paramObject.Build (assembling dig.In), the two invokers, and Scope.String with its private helpers (printing the cached values for a human: it returns text, never a verdict); no other function branches on or inspects run-time values, so every dig-originated verdict is a function of types, keys and errors only and is the same under DryRun, whose fake results are zero values")
		allowed := map[string]bool{
			"(dig.resultList).ExtractList": true, "(*dig.Scope).Invoke": true, "(dig.resultGrouped).Extract": true,
			"(dig.resultObject).Extract": true, "(dig.paramObject).Build": true, "dig.dryInvoker": true, "dig.defaultInvoker": true,
			"dig.newConstructorNode": true, "dig.newDecoratorNode": true, "dig/internal/digreflect.InspectFunc": true,
			"(*dig.Scope).Provide": true, "(*dig.Scope).Decorate": true,
			// prints the cached values for a human; its only result is text (helpers: printable, containsItself)
			"(*dig.Scope).String": true,
		}
		inspect := map[string]bool{"Len": true, "Index": true, "IsNil": true, "IsZero": true, "IsValid": true, "Interface": true, "Field": true, "Elem": true,
			"Int": true, "Uint": true, "Float": true, "String": true, "Bool": true, "MapIndex": true, "MapKeys": true, "NumField": true, "Cap": true, "Pointer": true, "Kind": true, "CanInterface": true}
		n := 0
		for _, fn := range c.P.Funcs {
			if fn.Pkg != c.P.Dig {
				continue
			}
			an.Instrs(fn, func(in ssa.Instruction) {
				k, ok := in.(*ssa.Call)
				if !ok {
					return
				}
				f := an.StaticCallee(k)
				if f == nil || f.Signature.Recv() == nil || !an.IsNamed(f.Signature.Recv().Type(), "reflect", "Value") || !inspect[f.Name()] {
					return
				}
				n++
				nm := an.ShortName(fn)
				base := nm
				if i := strings.Index(nm, "$"); i > 0 {
					base = nm[:i]
				}
				if base == "(dig.resultList).ExtractList" && fn.Parent() == nil {
					// only the error-typed results (resultIndexes[i] < 0) are looked at; every other value is handed on unseen
					errPos := an.EdgesWhere(fn, func(ft an.Fact) bool {
						return regexp.MustCompile(`^\(p:rl\.resultIndexes\[.*\] (< 0|<= -1)\)$`).MatchString(ft.S) || regexp.MustCompile(`^!\(p:rl\.resultIndexes\[.*\] (>= 0|> -1)\)$`).MatchString(ft.S)
					})
					hit, _ := an.PathTo(fn, nil, an.IsInstr(k), an.NewGates().AddEdges(errPos...))
					c.Check(hit == nil && len(errPos) > 0, rule, "reflect.Value."+f.Name()+" in "+nm+" only on an error-typed result", "under resultIndexes[i] < 0", "ExtractList looks inside a returned value that is not an error result ("+an.Norm(k.Common().Args[0])+"."+f.Name()+"()): a verdict depends on what the function returned - under DryRun every result is a zero value (a nil func, a nil pointer, an empty slice), so the dry container judges the same program differently", k, nil)
					return
				}
				c.Check(allowed[base] || privateHelperOf(c, fn, allowed, 0), rule, "reflect.Value."+f.Name()+" in "+nm, "delivery of results / entry validation", "dig inspects a run-time value ("+an.Norm(k.Common().Args[0])+"."+f.Name()+"()) in "+nm+": a verdict now depends on what user functions returned, so it differs under DryRun (zero values) or between runs", k, nil)
			})
		}
		c.Floor(rule, "reflect.Value inspection sites", n, 8)
		// how MANY values a group holds is a fact about run-time values too (a flattened result contributes as many
		// members as the slice the function returned has elements - none under DryRun): no branch depends on the
		// length of a stored value group
		nLen := 0
		for _, fn := range c.P.Funcs {
			if fn.Pkg != c.P.Dig {
				continue
			}
			an.EdgesWhere(fn, func(ft an.Fact) bool {
				if ft.Neg {
					return false
				}
				if in, ok := ft.Cond.(ssa.Instruction); ok && in.Block() != nil && in.Block().Comment == "rangeindex.loop" {
					return false // iterating over the members is not a decision about their number
				}
				if regexp.MustCompile(`len\(.*\.(getValueGroup|getDecoratedValueGroup)\(`).MatchString(ft.S) || regexp.MustCompile(`len\(p:[a-z]+\.(groups|decoratedGroups)\[`).MatchString(ft.S) {
					nLen++
					var at ssa.Instruction
					if in, ok := ft.Cond.(ssa.Instruction); ok {
						at = in
					}
					c.Bad(rule, "no branch on the number of values a group holds in "+an.ShortName(fn), "dig branches on "+ft.S+": a verdict or the set of functions that run depends on how many members the group's feeders returned - a flattened slice is empty under DryRun, so the dry container judges the same program differently", at, nil)
				}
				return false
			})
		}
		if nLen == 0 {
			c.OKAt(rule, "no branch on the number of values a group holds", "0 conditions mention the length of a stored value group", "-")
		}
	}
}

// ruleExportedFields: only exported struct fields enter parameter and result objects.
func ruleExportedFields(rule string) RuleFn {
	return func(c *an.Ctx) {
		c.Rule(rule, "G-exported-fields: newParamObjectField and newResultObjectField return without error only on paths that cross the f.PkgPath == \"\" edge (the field is exported), whatever tags the field carries; newParamObject skips unexported fields only under ignore-unexported. reflect.Value.Set / Interface on a value obtained through an unexported field panics, and that panic would come from dig's own code outside any RecoverFromPanics guard")
		for _, nm := range []string{"dig.newParamObjectField", "dig.newResultObjectField"} {
			fn := c.Fn(rule, nm)
			if fn == nil {
				continue
			}
			g := an.NewGates().AddEdges(an.EdgesWhere(fn, an.FactIs(`(p:f.PkgPath == "")`, `(len(p:f.PkgPath) == 0)`))...)
			cons := nm + " accepts exported fields only"
			if g.Len() == 0 {
				c.BadAt(rule, cons, "f.PkgPath is never tested", c.P.Pos(fn.Pos()), nil)
				continue
			}
			bad := false
			an.Instrs(fn, func(in ssa.Instruction) {
				r, ok := in.(*ssa.Return)
				if !ok || isErrorExit(r) || bad {
					return
				}
				if hit, path := an.PathTo(fn, nil, an.IsInstr(r), g); hit != nil {
					bad = true
					c.Bad(rule, cons, "a field can be accepted without its exportedness having been checked (e.g. when a group tag is looked at first): building or extracting the object later panics in reflect on the unexported field", r, an.BlockPath(c.P, path))
				}
			})
			if !bad {
				c.OK(rule, cons, "every successful return is dominated by f.PkgPath == \"\"", fn.Blocks[0].Instrs[0])
			}
		}
		// newParamObject: the only skip of a field with PkgPath != "" is under ignoreUnexported
		if fn := c.Fn(rule, "dig.newParamObject"); fn != nil {
			calls := methodCalls(fn, "dig.newParamObjectField")
			c.Check(len(calls) == 1, rule, "dig.newParamObject hands every remaining field to newParamObjectField", "one call in the field loop", "fields are not all passed through newParamObjectField", nil, nil)
		}
	}
}

// ignoredErrorOK lists the call sites whose error result is deliberately not looked at, with the reason.
func ignoredErrorOK(fn, callee string) (string, bool) {
	for _, x := range ignoredErrors {
		if x[0] == fn && x[1] == callee {
			return x[2], true
		}
	}
	return "", false
}

var ignoredErrors = [][3]string{
	{"dig.newParamGroupedSlice", "dig.isFieldOptional", "a malformed optional tag on a group field counts as not optional: the registration is accepted (C14 allows either outcome) and a well-formed true is rejected two lines further down"},
	{"dig.newResultGrouped", "dig.isFieldOptional", "same, for group-tagged result fields"},
}
