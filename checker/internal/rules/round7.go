package rules

import (
	"fmt"
	"go/token"
	"go/types"
	"os"
	"regexp"
	"strconv"
	"strings"

	"golang.org/x/tools/go/ssa"

	"verif/checker/internal/an"
)

// Rules added after seeding round 7 and the mechanical mutant sweep (DESIGN 9.11).

// loopLeavesOnlyWithError: every edge leaving the loop body (other than back to the header) leads to error returns
// only: neither into the code after the loop nor to a success return.
func loopLeavesOnlyWithError(l *rangeLoop) (bool, ssa.Instruction) {
	for _, e := range l.earlyExits() {
		tgt := e.From.Succs[e.Succ]
		if reachesNormalContinuation(tgt, l) {
			return false, e.From.Instrs[len(e.From.Instrs)-1]
		}
		seen := map[*ssa.BasicBlock]bool{}
		stack := []*ssa.BasicBlock{tgt}
		for len(stack) > 0 {
			b := stack[len(stack)-1]
			stack = stack[:len(stack)-1]
			if seen[b] || l.body[b] || b == l.header {
				continue
			}
			seen[b] = true
			for _, in := range b.Instrs {
				if r, ok := in.(*ssa.Return); ok && !isErrorExit(r) {
					return false, r
				}
			}
			stack = append(stack, b.Succs...)
		}
	}
	return true, nil
}

// loopCoversAll: the loop runs over the WHOLE sequence: an index loop counts from 0 in steps of 1 up to a bound
// without arithmetic (i < n, i < len(x), i < t.NumField()); a range loop ranges over a value that is not a
// sub-slice expression.
func loopCoversAll(l *rangeLoop) (bool, string) {
	iff, ok := l.header.Instrs[len(l.header.Instrs)-1].(*ssa.If)
	if !ok {
		return true, ""
	}
	if l.header.Comment == "rangeindex.loop" {
		if isSubSliceExpr(l.over) {
			return false, "it ranges over the sub-slice " + l.over
		}
		return true, ""
	}
	bo, ok := iff.Cond.(*ssa.BinOp)
	if !ok || bo.Op != token.LSS {
		return true, "" // not a counting loop: nothing to say
	}
	if _, isPhi := bo.X.(*ssa.Phi); !isPhi {
		return true, ""
	}
	if !isCountingPhi(iff.Cond) {
		return false, "its index does not start at 0 or does not advance by 1"
	}
	if b := an.Norm(bo.Y); regexp.MustCompile(` [-+] \d+\)?$`).MatchString(b) {
		return false, "its bound is " + b
	}
	return true, ""
}

// isSubSliceExpr: the normalised expression ends in a slice expression x[a:b] (brackets matched, so that element
// types like []error inside x do not confuse the test).
func isSubSliceExpr(s string) bool {
	if !strings.HasSuffix(s, "]") {
		return false
	}
	depth := 0
	for i := len(s) - 1; i >= 0; i-- {
		switch s[i] {
		case ']', ')', '}':
			depth++
		case '(', '{':
			depth--
		case '[':
			depth--
			if depth == 0 {
				return false
			}
		case ':':
			// "p:name" and "new:name" are how parameters and locals are written, not a slice colon
			isPrefix := false
			if i+1 < len(s) && (s[i+1] == '_' || (s[i+1] >= 'a' && s[i+1] <= 'z') || (s[i+1] >= 'A' && s[i+1] <= 'Z')) {
				for _, pre := range []string{"p", "new"} {
					if strings.HasSuffix(s[:i], pre) {
						j := i - len(pre) - 1
						if j < 0 || !((s[j] >= 'a' && s[j] <= 'z') || (s[j] >= 'A' && s[j] <= 'Z') || (s[j] >= '0' && s[j] <= '9') || s[j] == '_') {
							isPrefix = true
						}
					}
				}
			}
			if depth == 1 && !isPrefix {
				return true
			}
		}
	}
	return false
}

// ruleChildrenAll (L-children-all).
func ruleChildrenAll(rule string) RuleFn {
	return func(c *an.Ctx) {
		c.Rule(rule, "L-children-all: the loops that turn a signature into the IR (newParamList, newParamObject, newResultList, newResultObject) and the loops that run over the IR's children (paramList.BuildList, paramObject.Build, resultList.ExtractList, resultObject.Extract) visit EVERY position: a loop whose body builds or consumes a child is left only by exhausting its range or by returning a non-nil error - never by a break or a success return. A skipped position is skipped with continue. Otherwise the parameters, fields or results standing after a particular kind of element (an error result, an unexported field, a dig.In embed) silently vanish from the registration or from the commit")
		type spec struct{ fn, callee string }
		n := 0
		for _, sp := range []spec{
			{"dig.newParamList", "dig.newParam"},
			{"dig.newParamObject", "dig.newParamObjectField"},
			{"dig.newResultList", "dig.newResult"},
			{"dig.newResultObject", "dig.newResultObjectField"},
			{"(dig.paramList).BuildList", "Build"},
			{"(dig.paramObject).Build", "Build"},
			{"(dig.resultList).ExtractList", "Extract"},
			{"(dig.resultObject).Extract", "Extract"},
		} {
			fn := c.Fn(rule, sp.fn)
			if fn == nil {
				continue
			}
			found := 0
			for _, l := range allLoops(fn) {
				var site ssa.Instruction
				for b := range l.body {
					for _, in := range b.Instrs {
						k, ok := in.(ssa.CallInstruction)
						if !ok {
							continue
						}
						if k.Common().IsInvoke() {
							if k.Common().Method.Name() == sp.callee {
								site = in
							}
						} else if nm := an.CalleeName(k); nm == sp.callee || (!strings.Contains(sp.callee, ".") && strings.HasSuffix(nm, ")."+sp.callee)) {
							site = in
						}
					}
				}
				if site == nil {
					continue
				}
				found++
				n++
				good, at := loopLeavesOnlyWithError(l)
				if at == nil {
					at = site
				}
				c.Check(good, rule, sp.fn+": the loop around "+sp.callee+" visits every position", "left only by exhaustion or an error return", "the loop can be left early without an error (break or success return): the elements after that position are never built, registered or committed", at, nil)
				if all, why := loopCoversAll(l); !all {
					c.Bad(rule, sp.fn+": the loop around "+sp.callee+" starts at the first and ends at the last position", "the loop does not run over the whole sequence: "+why+" - the first or last parameter, field or result is silently left out", site, nil)
				} else {
					c.OK(rule, sp.fn+": the loop around "+sp.callee+" starts at the first and ends at the last position", l.over, site)
				}
			}
			if found == 0 {
				c.BadAt(rule, sp.fn+": the loop around "+sp.callee+" visits every position", "no loop around "+sp.callee+" in "+sp.fn+": the children are not all visited", c.P.Pos(fn.Pos()), nil)
			}
		}
		c.Floor(rule, "child loops", n, 8)
	}
}

func infoTypeName(t types.Type) string {
	if p, ok := t.Underlying().(*types.Pointer); ok {
		t = p.Elem()
	}
	for _, nm := range []string{"ProvideInfo", "DecorateInfo", "InvokeInfo"} {
		if an.IsDigNamed(t, nm) {
			return nm
		}
	}
	return ""
}

// infoWrites lists the instructions of fn that write through a pointer to one of the three Info structs.
func infoWrites(fn *ssa.Function) (out []*ssa.Store, bases []ssa.Value) {
	an.Instrs(fn, func(in ssa.Instruction) {
		st, ok := in.(*ssa.Store)
		if !ok {
			return
		}
		var base ssa.Value
		switch a := st.Addr.(type) {
		case *ssa.FieldAddr:
			if infoTypeName(a.X.Type()) != "" {
				base = a.X
			}
		default:
			if _, isAlloc := st.Addr.(*ssa.Alloc); !isAlloc && infoTypeName(st.Addr.Type()) != "" {
				base = st.Addr
			}
		}
		if base == nil {
			return
		}
		if al, ok := base.(*ssa.Alloc); ok && !al.Heap {
			return
		}
		out = append(out, st)
		bases = append(bases, base)
	})
	return
}

// ruleInfoWriters (W-info-writers) and the nil guard (G-info-nil).
func ruleInfoWriters(rule string) RuleFn {
	return func(c *an.Ctx) {
		c.Rule(rule, "W-info-writers: the caller's ProvideInfo / DecorateInfo / InvokeInfo is written by exactly three functions - Scope.provide, Scope.Decorate, Scope.Invoke - (the option values only carry the pointer: applying an option, which happens before any validation, writes nothing through it), so a rejected call leaves the struct as it was. The option field that carries the pointer has the pointer type itself (an interface holding a nil *ProvideInfo is not nil) and every write through it is dominated by its own non-nil test: FillProvideInfo(nil) is a no-op, not a nil dereference")
		owners := map[string]bool{"(*dig.Scope).provide": true, "(*dig.Scope).Decorate": true, "(*dig.Scope).Invoke": true}
		n := 0
		for _, fn := range c.P.Funcs {
			sts, bases := infoWrites(fn)
			if len(sts) == 0 {
				continue
			}
			c.See(fn)
			nm := an.ShortName(fn)
			for i, st := range sts {
				n++
				cons := "write to " + infoTypeName(bases[i].Type()) + " in " + nm
				if !owners[nm] {
					c.Bad(rule, cons, "the caller's Info struct is written outside Scope.provide / Scope.Decorate / Scope.Invoke: options are applied before validation, so a call that is rejected afterwards has already changed the struct", st, nil)
					continue
				}
				b := an.Norm(bases[i])
				guards := an.EdgesWhere(fn, func(ft an.Fact) bool { return ft.S == "("+b+" != nil)" || ft.S == "!("+b+" == nil)" })
				if hit, path := an.PathTo(fn, nil, an.IsInstr(st), an.NewGates().AddEdges(guards...)); hit != nil || len(guards) == 0 {
					c.Bad(rule, cons+" is guarded by a non-nil test of the pointer", "the Info pointer "+b+" is written through without a dominating non-nil test: a nil target (a legal argument of the Fill*Info options) panics", st, an.BlockPath(c.P, path))
				} else {
					c.OK(rule, cons+" is guarded by a non-nil test of the pointer", b+" != nil", st)
				}
			}
		}
		c.Floor(rule, "writes to Info structs", n, 6)
		// the carrying fields are pointers to the struct
		for _, sp := range []struct{ typ, want string }{{"provideOptions", "ProvideInfo"}, {"decorateOptions", "DecorateInfo"}, {"invokeOptions", "InvokeInfo"}} {
			obj := c.P.Dig.Pkg.Scope().Lookup(sp.typ)
			good, why := false, "type "+sp.typ+" not found"
			if obj != nil {
				if stt, ok := obj.Type().Underlying().(*types.Struct); ok {
					why = "no Info field"
					for i := 0; i < stt.NumFields(); i++ {
						if stt.Field(i).Name() == "Info" {
							if p, ok := stt.Field(i).Type().(*types.Pointer); ok && an.IsDigNamed(p.Elem(), sp.want) {
								good = true
							} else {
								why = "its type is " + stt.Field(i).Type().String() + ": a nil *" + sp.want + " wrapped in another type passes a != nil test and is dereferenced"
							}
						}
					}
				}
			}
			c.Check(good, rule, sp.typ+".Info is a *"+sp.want, "pointer field", why, nil, nil)
		}
	}
}

// ruleInvokerPure (X-invoker-pure).
func ruleInvokerPure(rule string) RuleFn {
	return func(c *an.Ctx) {
		c.Rule(rule, "X-invoker-pure: defaultInvoker is exactly fn.Call(args): it returns what reflect's Call returned, untouched. dryInvoker mirrors the result TYPES (X-dry-all); whatever post-processing the real invoker applied to result VALUES (normalising, filtering, replacing) could not be mirrored by an invoker that runs nothing, and the two containers would judge the same program differently")
		fn := c.Fn(rule, "dig.defaultInvoker")
		if fn == nil {
			return
		}
		good, nret := true, 0
		an.Instrs(fn, func(in ssa.Instruction) {
			if r, ok := in.(*ssa.Return); ok {
				nret++
				if len(r.Results) != 1 || !regexp.MustCompile(`^p:fn\.Call\(p:args\)$`).MatchString(an.Norm(r.Results[0])) {
					good = false
				}
			}
		})
		// and nothing else looks at or writes into the returned slice
		an.Instrs(fn, func(in ssa.Instruction) {
			if k, ok := in.(*ssa.Call); ok && !k.Common().IsInvoke() && strings.HasSuffix(an.CalleeName(k), "reflect.Value).Call") {
				for _, r := range an.Referrers(k) {
					if _, isRet := r.(*ssa.Return); !isRet {
						good = false
					}
				}
			}
		})
		if len(fn.Blocks) != 1 {
			good = false
		}
		c.Check(good && nret == 1, rule, "defaultInvoker returns fn.Call(args) unchanged", "return fn.Call(args)", "defaultInvoker inspects or rewrites the returned values: a dry-run container, which only fabricates zero values of the result types, no longer reaches the same verdict", nil, nil)
	}
}

// ruleVariadicBlind (G-variadic-blind).
func ruleVariadicBlind(rule string) RuleFn {
	return func(c *an.Ctx) {
		c.Rule(rule, "G-variadic-blind: newParamList never looks at the variadic parameter: it lowers the bound of its loop by one when the function is variadic and reads ctype.In(i) only with the loop index - the type of the variadic parameter cannot influence acceptance or the IR, so appending one changes nothing")
		fn := c.Fn(rule, "dig.newParamList")
		if fn == nil {
			return
		}
		n, good := 0, true
		var at ssa.Instruction
		an.Instrs(fn, func(in ssa.Instruction) {
			k, ok := in.(ssa.CallInstruction)
			if !ok || !k.Common().IsInvoke() || k.Common().Method.Name() != "In" {
				return
			}
			n++
			if !regexp.MustCompile(`^(φt\d+|\(φt\d+ \+ 1\))$`).MatchString(an.Norm(k.Common().Args[0])) {
				good, at = false, in
			}
		})
		c.Check(good && n >= 1, rule, "newParamList reads parameter types by loop index only", "ctype.In(i), i < numArgs", "a parameter type is read at a fixed position (the variadic one): a function with an appended variadic parameter can be treated differently from the same function without it", at, nil)
		// the bound is lowered on the IsVariadic edge
		dec := false
		an.Instrs(fn, func(in ssa.Instruction) {
			if b, ok := in.(*ssa.BinOp); ok && strings.Contains(an.Norm(b), "NumIn() - 1") {
				dec = true
			}
		})
		c.Check(dec, rule, "newParamList drops the variadic parameter", "numArgs-- when IsVariadic", "the variadic parameter is not dropped", nil, nil)
	}
}

// ruleRollbackBody (E-ATOM rollback clause) - what graphHolder.Rollback does.
func ruleRollbackBody(rule string) RuleFn {
	return func(c *an.Ctx) {
		c.Rule(rule, "E-ATOM (rollback body): graphHolder.Rollback really undoes: whenever a snapshot mark exists (snap >= 0) it truncates nodes to the mark on every path to its return; it does nothing only when no mark exists. The transaction rules treat the call of Rollback as the undo of the graph nodes a rejected Provide added")
		fn := c.Fn(rule, "(*dig.graphHolder).Rollback")
		if fn == nil {
			return
		}
		var trunc []ssa.Instruction
		for _, st := range an.StoresToField(fn, "graphHolder", "nodes") {
			if v := an.Norm(st.Val); strings.HasSuffix(v, ".nodes[:p:gh.snap]") {
				trunc = append(trunc, st)
			}
		}
		noMark := an.EdgesWhere(fn, func(ft an.Fact) bool {
			return ft.S == "(p:gh.snap < 0)" || ft.S == "!(p:gh.snap >= 0)" || ft.S == "(p:gh.snap == -1)" || ft.S == "(p:gh.snap <= -1)"
		})
		good := len(trunc) > 0
		why := "Rollback does not truncate graphHolder.nodes to the snapshot mark"
		if good {
			if hit, _ := an.PathTo(fn, nil, func(i ssa.Instruction) bool { _, ok := i.(*ssa.Return); return ok }, an.NewGates().AddInstr(trunc...).AddEdges(noMark...)); hit != nil {
				good, why = false, "Rollback can return without truncating although a snapshot mark exists: the graph nodes of a rejected Provide stay in the graph (later false cycles, stale orders)"
			}
			// and the truncation is not executed without a mark (a negative bound panics)
			for _, e := range noMark {
				for _, t := range trunc {
					if hit, _ := an.PathTo(fn, e.From.Succs[e.Succ].Instrs[0], an.IsInstr(t), nil); hit != nil || e.From.Succs[e.Succ].Instrs[0] == t {
						good, why = false, "Rollback truncates although no mark exists (nodes[:-1] panics)"
					}
				}
			}
		}
		c.Check(good, rule, "graphHolder.Rollback truncates the nodes to the mark whenever one exists", "nodes = nodes[:snap] unless snap < 0", why, nil, nil)
	}
}

// ruleLookupWalk (L-lookup-walk): the two "decorated value in any enclosing scope" helpers.
func ruleLookupWalk(rule string) RuleFn {
	return func(c *an.Ctx) {
		c.Rule(rule, "L-lookup-walk: paramSingle.getDecoratedValue and paramGroupedSlice.getDecoratedValues walk c.storesToRoot() and return the first decorated value FOUND: the return inside the loop sits on the found edge of the lookup and hands on the looked-up value; a scope without one is skipped (the loop goes on); only after the whole walk do they report absence. The consumers (Build, the pre-flight missing-dependency check) rely on exactly this to see a value decorated in an enclosing scope")
		n := 0
		for _, sp := range []struct{ fn, acc string }{
			{"(dig.paramSingle).getDecoratedValue", "getDecoratedValue"},
			{"(dig.paramGroupedSlice).getDecoratedValues", "getDecoratedValueGroup"},
		} {
			fn := c.Fn(rule, sp.fn)
			if fn == nil {
				continue
			}
			cons := sp.fn + " returns the first decorated value found on the way to the root"
			var lk *ssa.Call
			var loop *rangeLoop
			for _, l := range allLoops(fn) {
				if l.over != "p:c.storesToRoot()" {
					continue
				}
				for b := range l.body {
					for _, in := range b.Instrs {
						if k, ok := in.(*ssa.Call); ok && k.Common().IsInvoke() && k.Common().Method.Name() == sp.acc {
							lk, loop = k, l
						}
					}
				}
			}
			if lk == nil {
				c.BadAt(rule, cons, "no loop over c.storesToRoot() around "+sp.acc, c.P.Pos(fn.Pos()), nil)
				continue
			}
			n++
			isOK := func(v ssa.Value) bool {
				ex, ok := v.(*ssa.Extract)
				return ok && ex.Index == 1 && ex.Tuple == ssa.Value(lk)
			}
			fromLookup := func(v ssa.Value) bool {
				if strings.Contains(an.Norm(v), "."+sp.acc+"(") {
					return true
				}
				for _, o := range an.Origins(v) {
					if ex, ok := o.(*ssa.Extract); ok && ex.Tuple == ssa.Value(lk) && ex.Index == 0 {
						return true
					}
					if k, ok := o.(*ssa.Call); ok && strings.Contains(an.Norm(k), "."+sp.acc+"(") {
						return true
					}
				}
				return false
			}
			found := an.BoolEdges(fn, isOK, true)
			absent := an.BoolEdges(fn, isOK, false)
			good, why := len(found) > 0 && len(absent) > 0, "the lookup's ok result is not tested"
			// from the found edge: a return of (value derived from the lookup, true/ok) without going round the loop
			for _, e := range found {
				hit, _ := an.PathTo(fn, e.From.Succs[e.Succ].Instrs[0], func(i ssa.Instruction) bool {
					r, ok := i.(*ssa.Return)
					if !ok || len(r.Results) != 2 {
						return false
					}
					second := an.Norm(r.Results[1])
					return fromLookup(r.Results[0]) && (second == "true" || strings.HasSuffix(second, "#1"))
				}, an.NewGates().AddInstr(loop.header.Instrs[len(loop.header.Instrs)-1]))
				first := e.From.Succs[e.Succ].Instrs[0]
				if r, ok := first.(*ssa.Return); ok && len(r.Results) == 2 && fromLookup(r.Results[0]) {
					hit = r
				}
				if hit == nil {
					good, why = false, "finding a decorated value does not end the walk with that value"
				}
			}
			// from the absent edge: no return before the loop header is reached again
			for _, e := range absent {
				tgt := e.From.Succs[e.Succ]
				seen := map[*ssa.BasicBlock]bool{}
				stack := []*ssa.BasicBlock{tgt}
				for len(stack) > 0 {
					b := stack[len(stack)-1]
					stack = stack[:len(stack)-1]
					if b == loop.header || seen[b] {
						continue
					}
					seen[b] = true
					if !loop.body[b] {
						good, why = false, "a scope without a decorated value ends the walk: the enclosing scopes are not consulted"
						break
					}
					stack = append(stack, b.Succs...)
				}
			}
			c.Check(good, rule, cons, "if v, ok := lookup; ok { return v, ok } inside the walk", why, lk, nil)
		}
		c.Floor(rule, "decorated-value walks", n, 2)
	}
}

// ruleDotFailAndPrune (X-failnodes): internal/dot bookkeeping the golden files do not pin down.
func ruleDotFailAndPrune(rule string) RuleFn {
	return func(c *an.Ctx) {
		c.Rule(rule, "X-failnodes: dot.Graph.FailGroupNodes marks exactly the results of the failing constructor whose type AND group equal the failing key (both comparisons dominate failNode); dot.Graph.pruneCtors, for every constructor it drops, also removes that constructor's entries from its consumers' parameters and from the groups it fed and deletes it from ctorMap - otherwise the pruned picture keeps edges to nodes that are no longer drawn")
		if fn := c.Fn(rule, "(*dig/internal/dot.Graph).FailGroupNodes"); fn != nil {
			fails := an.CallsNamed(fn, "(*dig/internal/dot.Graph).failNode")
			good := len(fails) > 0
			for _, part := range []string{".Type == p:t)", ".Group == p:name)"} {
				part := part
				es := an.EdgesWhere(fn, func(ft an.Fact) bool { return strings.HasSuffix(ft.S, part) && !strings.HasPrefix(ft.S, "!") })
				for _, k := range fails {
					if hit, _ := an.PathTo(fn, nil, an.IsInstr(k), an.NewGates().AddEdges(es...)); hit != nil || len(es) == 0 {
						good = false
					}
				}
			}
			c.Check(good, rule, "FailGroupNodes fails the results matching type and group", "r.Type == t && r.Group == name", "a result is marked as failed although its type or its group differs from the failing group's key: a constructor feeding two groups shows both as failed", nil, nil)
		}
		// a node that is the root cause stays the root cause: the same constructor can appear twice in an error
		// chain (it was entered again while a decorator gathered its arguments); the later mention must not
		// repaint it as a transitive failure
		for _, nm := range []string{"(*dig/internal/dot.Graph).FailNodes", "(*dig/internal/dot.Graph).FailGroupNodes"} {
			fn := c.Fn(rule, nm)
			if fn == nil {
				continue
			}
			n := 0
			an.Instrs(fn, func(in ssa.Instruction) {
				st, ok := in.(*ssa.Store)
				if !ok {
					return
				}
				fa, ok := st.Addr.(*ssa.FieldAddr)
				if !ok || an.FieldName(fa.X.Type(), fa.Field) != "ErrorType" {
					return
				}
				n++
				owner := an.Norm(fa.X)
				guard := an.EdgesWhere(fn, func(ft an.Fact) bool {
					return ft.S == "("+owner+".ErrorType != 1)" || ft.S == "!("+owner+".ErrorType == 1)"
				})
				// is there a path on which the value stored IS transitiveFailure (2) and no "ErrorType != rootCause"
				// edge was crossed? Path-sensitive: phi values are followed along the path, and two tests of the same
				// boolean (isRootCause at the assignment and inside a helper that picks the value) agree
				is2 := func(v ssa.Value) bool {
					k, ok := v.(*ssa.Const)
					return ok && k.Value != nil && k.Value.String() == "2"
				}
				mayBe2 := false
				var seenV func(v ssa.Value, seen map[ssa.Value]bool)
				seenV = func(v ssa.Value, seen map[ssa.Value]bool) {
					if seen[v] {
						return
					}
					seen[v] = true
					if is2(v) {
						mayBe2 = true
					}
					if ph, ok := v.(*ssa.Phi); ok {
						for _, e := range ph.Edges {
							seenV(e, seen)
						}
					}
				}
				seenV(st.Val, map[ssa.Value]bool{})
				good := true
				if mayBe2 {
					r := an.PathSens(an.PSQuery{Fn: fn, Gates: an.NewGates().AddEdges(guard...), Target: func(in ssa.Instruction, env *an.PEnv) bool {
						if in != ssa.Instruction(st) {
							return false
						}
						v := env.Val(st.Val)
						if _, stillPhi := v.(*ssa.Phi); stillPhi {
							return true // undetermined on this path: assume the worst
						}
						return is2(v)
					}})
					if r.Found != nil || r.Overflow || len(guard) == 0 {
						good = false
					}
				}
				c.Check(good, rule, nm+" never demotes the root cause ("+owner+")", "ErrorType = transitiveFailure only if ErrorType != rootCause", "a node already marked as root cause can be overwritten with transitiveFailure: when the failing constructor is mentioned twice in the error chain the picture ends up without any root-cause constructor", st, nil)
			})
			if n == 0 {
				c.Und(rule, nm+" marks failures", "no store into an ErrorType field found")
			}
		}
		// (round 14) a pruned result takes with it only the parameters filed under its whole key
		if fn := c.Fn(rule, "(*dig/internal/dot.Ctor).removeParam"); fn != nil {
			// fields of the pruned key that take part in the decision; Params carry no group (AddCtor files
			// grouped parameters under GroupParams), so type and name are what has to be compared
			fields := map[string]bool{}
			var at ssa.Instruction
			an.Instrs(fn, func(in ssa.Instruction) {
				bo, ok := in.(*ssa.BinOp)
				if !ok || (bo.Op != token.EQL && bo.Op != token.NEQ) {
					return
				}
				isKey := func(v ssa.Value) bool { return an.IsNamed(v.Type(), an.ModPath+"/internal/dot", "nodeKey") }
				if isKey(bo.X) && isKey(bo.Y) {
					fields["t"], fields["name"], fields["group"] = true, true, true
					at = in
					return
				}
				for _, v := range []ssa.Value{bo.X, bo.Y} {
					if n := an.Norm(v); strings.HasPrefix(n, "p:k.") {
						fields[strings.TrimPrefix(n, "p:k.")] = true
						at = in
					}
				}
			})
			c.Check(fields["t"] && fields["name"], rule, "removeParam drops exactly the parameters with the pruned result's key", "parameters are compared by type and name (the whole nodeKey, or both fields)", "removeParam decides by a part of the key: pruning a successful constructor of T[name=a] also removes a failed constructor's edge to T[name=b] - the picture of the failure loses the edge to its root cause", at, nil)
		}
		if fn := c.Fn(rule, "(*dig/internal/dot.Graph).pruneCtors"); fn != nil {
			for _, callee := range []string{"(*dig/internal/dot.Graph).pruneCtorParams", "(*dig/internal/dot.Graph).pruneGroupResults"} {
				ks := an.CallsNamed(fn, callee)
				good := len(ks) > 0
				for _, k := range ks {
					if !an.InLoop(k.(ssa.Instruction)) {
						good = false
					}
				}
				if len(ks) == 0 && c.P.Func(callee) == nil {
					// the helper was folded into pruneCtors (or re-shaped beyond recognition and inlined by the
					// canonicaliser): its effect must then be visible in the loop itself
					an.Instrs(fn, func(in ssa.Instruction) {
						if !an.InLoop(in) {
							return
						}
						if strings.HasSuffix(callee, "pruneGroupResults") {
							if k, ok := in.(ssa.CallInstruction); ok && strings.HasSuffix(an.CalleeName(k), ".removeResult") {
								good = true
							}
						} else if k, ok := in.(ssa.CallInstruction); ok && strings.HasSuffix(an.CalleeName(k), ".removeParam") {
							good = true
						}
					})
				}
				c.Check(good, rule, "pruneCtors calls "+callee+" for every dropped constructor", "inside the loop over dg.Ctors", "a pruned constructor's references survive in the graph ("+callee+" is not called for it)", nil, nil)
			}
			del := false
			an.Instrs(fn, func(in ssa.Instruction) {
				if k, ok := in.(*ssa.Call); ok {
					if b, ok := k.Common().Value.(*ssa.Builtin); ok && b.Name() == "delete" && strings.HasSuffix(an.Norm(k.Common().Args[0]), ".ctorMap") {
						del = true
					}
				}
			})
			c.Check(del, rule, "pruneCtors deletes dropped constructors from ctorMap", "delete(dg.ctorMap, c.ID)", "ctorMap keeps pruned constructors", nil, nil)
		}
	}
}

// ruleFlattenAs (G-flatten-as).
func ruleFlattenAs(rule string) RuleFn {
	return func(c *an.Ctx) {
		c.Rule(rule, "G-flatten-as: in the group branch of newResult the element type replaces the group's type (rg.Type = t.Elem(), the flatten case) only when NO As interface was applied: the store is dominated either by the emptiness of the As option, or by both len(rg.As) == 0 and rg.Type == t. With a single As interface rg.As is empty and only rg.Type differs; testing one of the two lets flatten silently overwrite the As type (or, before the repair of D2, take Elem of an interface)")
		fn := c.Fn(rule, "dig.newResult")
		if fn == nil {
			return
		}
		var stores []ssa.Instruction
		for _, st := range an.StoresToField(fn, "resultGrouped", "Type") {
			if an.Norm(st.Val) == "p:t.Elem()" {
				stores = append(stores, st)
			}
		}
		if len(stores) == 0 {
			c.Und(rule, "flatten replaces the group type by the element type", "no store rg.Type = t.Elem() in newResult")
			return
		}
		// the local that holds the node may have any name: it is the struct the flatten store writes into
		local := "new:rg"
		if st, ok := stores[0].(*ssa.Store); ok {
			if fa, ok := st.Addr.(*ssa.FieldAddr); ok {
				local = an.Norm(fa.X)
			}
		}
		norm := func(s string) string { return strings.ReplaceAll(s, local, "rg") }
		optEmpty := an.EdgesWhere(fn, func(ft an.Fact) bool {
			return ft.S == "(len(p:opts.As) == 0)" || ft.S == "!(len(p:opts.As) > 0)" || ft.S == "(len(p:opts.As) <= 0)"
		})
		asEmpty := an.EdgesWhere(fn, func(ft an.Fact) bool {
			s := norm(ft.S)
			return s == "(len(rg.As) == 0)" || s == "!(len(rg.As) > 0)" || s == "(len(rg.As) <= 0)"
		})
		typeSame := an.EdgesWhere(fn, func(ft an.Fact) bool {
			s := norm(ft.S)
			return s == "(rg.Type == p:t)" || s == "!(rg.Type != p:t)" || s == "(p:t == rg.Type)"
		})
		for _, st := range stores {
			dom := func(es []an.Edge) bool {
				if len(es) == 0 {
					return false
				}
				hit, _ := an.PathTo(fn, nil, an.IsInstr(st), an.NewGates().AddEdges(es...))
				return hit == nil
			}
			good := dom(optEmpty) || (dom(asEmpty) && dom(typeSame))
			c.Check(good, rule, "flatten replaces the group type only when no As interface was applied", "len(rg.As) == 0 && rg.Type == t dominate rg.Type = t.Elem()", "rg.Type = t.Elem() can be reached although an As interface was applied (only one of len(rg.As) > 0 / rg.Type != t is tested): Provide(f, Group(\"g,flatten\"), As(new(I))) is accepted and the As interface is silently replaced by the slice's element type", st, nil)
		}
	}
}

// ruleComparableErrors (T-comparable).
func ruleComparableErrors(rule string) RuleFn {
	return func(c *an.Ctx) {
		c.Rule(rule, "T-comparable: every value of a dig-declared type that is turned into an error (or dig.Error) interface value has a COMPARABLE type (go/types.Comparable: no slice, map or func type, no struct or array containing one). errors.Is compares the links of a chain with ==; an interface holding an uncomparable dynamic value makes that comparison panic at run time ('comparing uncomparable type'), also when the value sits in the Reason field of a comparable wrapper struct. errors.Is(err, err) on an error dig returned - and on the error of a constructor that passes on another container's failure - must answer, not panic")
		n := 0
		seen := map[string]bool{}
		for _, fn := range c.P.Funcs {
			an.Instrs(fn, func(in ssa.Instruction) {
				mi, ok := in.(*ssa.MakeInterface)
				if !ok {
					return
				}
				it, ok := mi.Type().Underlying().(*types.Interface)
				if !ok {
					return
				}
				isErr := false
				for i := 0; i < it.NumMethods(); i++ {
					if it.Method(i).Name() == "Error" {
						isErr = true
					}
				}
				if !isErr {
					return
				}
				// a value method handing its own receiver to a formatting helper does not create an error value
				// that circulates; package initialisers only assert interface satisfaction
				if p, isParam := mi.X.(*ssa.Parameter); isParam && fn.Signature.Recv() != nil && len(fn.Params) > 0 && fn.Params[0] == p {
					return
				}
				if fn.Name() == "init" || strings.HasPrefix(fn.Name(), "init#") {
					return
				}
				t := mi.X.Type()
				nm, ok := t.(*types.Named)
				if !ok {
					if p, isP := t.(*types.Pointer); isP {
						nm, _ = p.Elem().(*types.Named)
					}
				}
				if nm == nil || nm.Obj().Pkg() == nil || !strings.HasPrefix(nm.Obj().Pkg().Path(), an.ModPath) {
					return
				}
				n++
				cons := "error values of type " + strings.ReplaceAll(types.TypeString(t, nil), an.ModPath, "dig") + " are comparable"
				if seen[cons] {
					return
				}
				seen[cons] = true
				c.See(fn)
				c.Check(types.Comparable(t), rule, cons, "go/types.Comparable", "a value of this type is returned as an error although the type is not comparable: errors.Is on a chain that contains it (errors.Is(err, err), or matching the error a constructor passed on from a nested container) panics with 'comparing uncomparable type' instead of answering", in, nil)
			})
		}
		c.Floor(rule, "dig values converted to error interfaces", n, 10)
	}
}

// taOK reports whether v is the ok result of a comma-ok type assertion (also the ones a type switch is made of) to
// the dig type named typ (value or pointer).
func taOK(v ssa.Value, typ string) bool {
	if ph, isPhi := v.(*ssa.Phi); isPhi && len(ph.Edges) > 0 {
		// the same assertion made before a loop and at the end of its body
		for _, e := range ph.Edges {
			if _, again := e.(*ssa.Phi); again || !taOK(e, typ) {
				return false
			}
		}
		return true
	}
	ex, ok := v.(*ssa.Extract)
	if !ok || ex.Index != 1 {
		return false
	}
	ta, ok := ex.Tuple.(*ssa.TypeAssert)
	if !ok {
		return false
	}
	t := ta.AssertedType
	if p, isP := t.(*types.Pointer); isP {
		t = p.Elem()
	}
	return an.IsDigNamed(t, typ)
}

// stopsAtFunctionFailed: on the "is an errConstructorFailed" edge and on the "is an errDecoratorFailed" edge the walk
// over the error chain ends: no errors.Unwrap (and no recursive call of the walker) is reachable from them.
func stopsAtFunctionFailed(fn *ssa.Function) (bool, string) {
	for _, typ := range []string{"errConstructorFailed", "errDecoratorFailed"} {
		typ := typ
		stop := an.BoolEdges(fn, func(v ssa.Value) bool { return taOK(v, typ) }, true)
		if len(stop) == 0 {
			return false, "the walk does not test for " + typ
		}
		var onward []ssa.Instruction
		for _, u := range an.CallsNamed(fn, "errors.Unwrap") {
			onward = append(onward, u.(ssa.Instruction))
		}
		for _, k := range methodCalls(fn, an.ShortName(fn)) {
			onward = append(onward, k)
		}
		for _, e := range stop {
			first := e.From.Succs[e.Succ].Instrs[0]
			for _, u := range onward {
				if first == u {
					return false, "the walk goes on below an " + typ + " link"
				}
				if hit, _ := an.PathTo(fn, first, an.IsInstr(u), nil); hit != nil {
					return false, "the walk goes on below an " + typ + " link"
				}
			}
		}
	}
	return true, ""
}

func stopsAtConstructorFailed(fn *ssa.Function) (bool, string) { return stopsAtFunctionFailed(fn) }

// ruleNoFormatUserValue (T-no-format).
func ruleNoFormatUserValue(rule string) RuleFn {
	return func(c *an.Ctx) {
		c.Rule(rule, "T-no-format: a value of type interface{} that a caller handed to dig (the thing passed to Provide, Decorate or Invoke where a function was expected) is given to a fmt formatting function only under a positive test that its reflect Kind is a scalar one (bool, integer, float, complex, string): fmt follows slices, maps, pointers and interfaces without cycle detection, so formatting a rejected value that contains itself with %v never returns - the process dies with a stack overflow that no recover can catch, where an error was due")
		n := 0
		for _, fn := range c.P.Funcs {
			an.Instrs(fn, func(in ssa.Instruction) {
				k, ok := in.(*ssa.Call)
				if !ok || k.Common().IsInvoke() {
					return
				}
				nm := an.CalleeName(k)
				if !strings.HasPrefix(nm, "fmt.") || !(strings.Contains(nm, "print") || strings.Contains(nm, "Print") || strings.Contains(nm, "Errorf")) {
					return
				}
				// the elements of the variadic slice
				for _, a := range k.Common().Args {
					sl, ok := a.(*ssa.Slice)
					if !ok {
						continue
					}
					al, ok := sl.X.(*ssa.Alloc)
					if !ok {
						continue
					}
					for _, r := range an.Referrers(al) {
						ia, ok := r.(*ssa.IndexAddr)
						if !ok {
							continue
						}
						for _, rr := range an.Referrers(ia) {
							st, ok := rr.(*ssa.Store)
							if !ok {
								continue
							}
							if mi, isMI := st.Val.(*ssa.MakeInterface); isMI && an.IsNamed(mi.X.Type(), "reflect", "Value") {
								// a reflect.Value holds whatever a user function returned: fmt prints the value inside it
								n++
								if selfFreeGate(fn, mi.X, k) {
									c.OK(rule, "no reflect.Value is handed to a fmt formatting function in "+an.ShortName(fn), "only after containsItself said no", k)
									continue
								}
								c.Bad(rule, "no reflect.Value is handed to a fmt formatting function in "+an.ShortName(fn), "a cached value (whatever a constructor returned) is formatted with "+nm+": a value that contains itself (a map stored in itself, a slice of interfaces holding itself) makes Container.String / Scope.String overflow the stack - a fatal error no recover can catch - although every call that built this state succeeded", k, nil)
								continue
							}
							pn := an.Norm(st.Val)
							if !regexp.MustCompile(`^p:[A-Za-z_0-9]+$`).MatchString(pn) {
								continue
							}
							if it, isI := st.Val.Type().Underlying().(*types.Interface); !isI || it.NumMethods() != 0 {
								continue
							}
							switch st.Val.(type) {
							case *ssa.ChangeInterface, *ssa.MakeInterface:
								continue // a typed value (a reflect.Type, a string ...) converted for the call
							}
							n++
							// a positive test for a scalar kind (bool, the integers, floats, complex numbers, string)
							scalar := regexp.MustCompile(`\.Kind\(\) == (\d+)\)$`)
							kind := an.EdgesWhere(fn, func(ft an.Fact) bool {
								m := scalar.FindStringSubmatch(ft.S)
								if m == nil || strings.HasPrefix(ft.S, "!") {
									return false
								}
								k, _ := strconv.Atoi(m[1])
								return (k >= 1 && k <= 16) || k == 24
							})
							hit, _ := an.PathTo(fn, nil, an.IsInstr(k), an.NewGates().AddEdges(kind...))
							c.Check(hit == nil && len(kind) > 0, rule, "the interface{} parameter "+pn+" of "+an.ShortName(fn)+" is formatted only under a Kind test", "guarded by reflect Kind", "the caller's value is formatted with "+nm+" whatever it is: a value that contains itself (v := make([]interface{}, 1); v[0] = v) overflows the stack inside fmt instead of being rejected with an error", k, nil)
						}
					}
				}
			})
		}
		// a reflect.Value that leaves a function as an interface{} (Scope.String prints what printable returns)
		for _, fn := range c.P.Funcs {
			if fn.Pkg == nil || fn.Pkg.Pkg.Path() != "go.uber.org/dig" || fn.Signature.Results().Len() != 1 {
				continue
			}
			if it, isI := fn.Signature.Results().At(0).Type().Underlying().(*types.Interface); !isI || it.NumMethods() != 0 {
				continue
			}
			an.Instrs(fn, func(in ssa.Instruction) {
				ret, ok := in.(*ssa.Return)
				if !ok || len(ret.Results) != 1 {
					return
				}
				for _, rv := range phiLeaves(ret.Results[0]) {
					mi, isMI := rv.(*ssa.MakeInterface)
					if !isMI || !an.IsNamed(mi.X.Type(), "reflect", "Value") {
						continue
					}
					n++
					at := ssa.Instruction(mi)
					c.Check(selfFreeGate(fn, mi.X, at), rule, an.ShortName(fn)+" returns a container value for printing only after containsItself said no", "gated by containsItself", "a cached value (whatever a constructor returned) is handed on for formatting although it was not checked for containing itself: Provide(func() M { m := M{}; m[\"self\"] = m; return m }), Invoke(func(M){}), c.String() overflows the stack inside fmt - a fatal error no recover can catch", at, nil)
				}
			})
		}
		if cf := c.P.Func("dig.containsItself"); cf != nil {
			// fmt follows exactly these kinds without looking for cycles; each must be followed by the search too
			for _, kd := range []struct {
				name string
				k    int
			}{{"Array", 17}, {"Interface", 20}, {"Map", 21}, {"Ptr", 22}, {"Slice", 23}, {"Struct", 25}} {
				// a recursive call is reachable from the entry by a path that assumes the kind: it takes no false edge of
				// a test for this kind and no true edge of a test for another one
				kre := regexp.MustCompile(`\.Kind\(\) (==|!=) (\d+)\)$`)
				tested := false
				block := an.EdgesWhere(cf, func(ft an.Fact) bool {
					if os.Getenv("VERIF_DEBUG_FACTS") == "dig.containsItself" {
						fmt.Fprintln(os.Stderr, "fact:", ft.S)
					}
					// ... and that assumes a top-level value that is neither nil nor empty
					switch ft.S {
					case "p:v.IsNil()", "(p:v.Len() == 0)", "!(p:v.Len() != 0)", "(p:v.Len() <= 0)", "!(p:v.Len() > 0)", "(p:v.Len() < 1)",
						"(p:depth > 0)", "!(p:depth <= 0)", "(p:depth != 0)", "!(p:depth == 0)", "(p:depth >= 1)":
						return true
					}
					m := kre.FindStringSubmatch(ft.S)
					if m == nil {
						return false
					}
					neg := strings.HasPrefix(ft.S, "!") != (m[1] == "!=")
					same := m[2] == strconv.Itoa(kd.k)
					if same && !neg {
						tested = true
					}
					return same == neg
				})
				self := func(i ssa.Instruction) bool {
					k, ok := i.(*ssa.Call)
					return ok && an.CalleeName(k) == "dig.containsItself"
				}
				hit, _ := an.PathTo(cf, nil, self, an.NewGates().AddEdges(block...))
				followed := tested && hit != nil
				if followed && (kd.k == 21 || kd.k == 22 || kd.k == 23) {
					// what is followed by reference is remembered first: no path to the recursive call avoids
					// onPath[ref] = true, and none passes the "seen before" edge of the look-up
					var marks []ssa.Instruction
					an.Instrs(cf, func(in ssa.Instruction) {
						if mu, ok := in.(*ssa.MapUpdate); ok && an.Norm(mu.Map) == "p:onPath" {
							if k, isK := mu.Value.(*ssa.Const); isK && k.Value != nil && k.Value.String() == "true" {
								marks = append(marks, in)
							}
						}
					})
					seen := an.BoolEdges(cf, func(v ssa.Value) bool {
						ex, ok := v.(*ssa.Extract)
						if !ok || ex.Index != 1 {
							return false
						}
						lk, ok := ex.Tuple.(*ssa.Lookup)
						return ok && lk.CommaOk && an.Norm(lk.X) == "p:onPath"
					}, true)
					unmarked, _ := an.PathTo(cf, nil, self, an.NewGates().AddEdges(block...).AddInstr(marks...))
					past := false
					for _, e := range seen {
						first := e.From.Succs[e.Succ].Instrs[0]
						if self(first) {
							past = true
						} else if h, _ := an.PathTo(cf, first, self, nil); h != nil {
							past = true
						}
					}
					ok := len(marks) > 0 && len(seen) > 0 && unmarked == nil && !past
					why := "the search follows a " + kd.name + " without remembering it (onPath[ref] = true before the recursive call, and a stop where the look-up finds it again): on a value that contains itself the search itself never ends - Scope.String overflows the stack"
					if ok {
						c.OKAt(rule, "containsItself remembers a "+kd.name+" before it looks inside", "marked, and the search stops at a marked one", c.P.Pos(cf.Pos()))
					} else {
						c.BadAt(rule, "containsItself remembers a "+kd.name+" before it looks inside", why, c.P.Pos(cf.Pos()), nil)
					}
				}
				if followed {
					c.OKAt(rule, "containsItself follows values of kind "+kd.name, "recursive call below the Kind test", c.P.Pos(cf.Pos()))
				} else {
					c.BadAt(rule, "containsItself follows values of kind "+kd.name, "fmt prints what is inside a "+kd.name+" without looking for cycles, the search for a value that contains itself does not look there: such a value is declared printable and Scope.String overflows the stack", c.P.Pos(cf.Pos()), nil)
				}
			}
		}
		if cf := c.P.Func("dig.containsItself"); cf != nil {
			isSelf := func(v ssa.Value) bool {
				k, ok := v.(*ssa.Call)
				return ok && an.CalleeName(k) == "dig.containsItself"
			}
			// a hit below is a hit: no path from "the recursive call said yes" to an answer of no
			saysNo := func(i ssa.Instruction) bool {
				isFalse := func(v ssa.Value) bool {
					k, ok := v.(*ssa.Const)
					return ok && k.Value != nil && k.Value.String() == "false"
				}
				switch i := i.(type) {
				case *ssa.Return:
					return len(i.Results) == 1 && isFalse(i.Results[0])
				case *ssa.Store:
					_, isAlloc := i.Addr.(*ssa.Alloc)
					return isAlloc && isFalse(i.Val) && types.Identical(i.Val.Type(), types.Typ[types.Bool])
				}
				return false
			}
			yes := an.BoolEdges(cf, isSelf, true)
			good := len(yes) > 0
			var at ssa.Instruction
			for _, e := range yes {
				first := e.From.Succs[e.Succ].Instrs[0]
				if saysNo(first) {
					good, at = false, first
				} else if hit, _ := an.PathTo(cf, first, saysNo, nil); hit != nil {
					good, at = false, hit
				}
			}
			if at == nil {
				at = cf.Blocks[0].Instrs[0]
			}
			c.Check(good, rule, "containsItself answers yes when a recursive call did", "every yes edge of a recursive call leads to a yes", "a part of the value was found to contain the value being printed and the search goes on or answers no: the value is declared printable and Scope.String overflows the stack", at, nil)
			for _, l := range allLoops(cf) {
				has := false
				for b := range l.body {
					for _, in := range b.Instrs {
						if v, ok := in.(ssa.Value); ok && isSelf(v) {
							has = true
						}
					}
				}
				if !has {
					continue
				}
				all, why := loopCoversAll(l)
				c.Check(all, rule, "containsItself looks at every element: loop "+l.over, "whole sequence", "an element is left out of the search ("+why+"): a value that contains itself there is declared printable and Scope.String overflows the stack", l.header.Instrs[0], nil)
			}
		}
		if n == 0 {
			c.OKAt(rule, "no interface{} parameter is handed to a fmt formatting function", "0 sites", "-")
		}
	}
}

// phiLeaves returns the non-phi values v can be.
func phiLeaves(v ssa.Value) []ssa.Value {
	var out []ssa.Value
	seen := map[ssa.Value]bool{}
	var walk func(ssa.Value)
	walk = func(v ssa.Value) {
		if seen[v] {
			return
		}
		seen[v] = true
		if p, ok := v.(*ssa.Phi); ok {
			for _, e := range p.Edges {
				walk(e)
			}
			return
		}
		out = append(out, v)
	}
	walk(v)
	return out
}

// selfFreeGate: at can be reached only over the "false" edge of a call dig.containsItself(v, ...).
func selfFreeGate(fn *ssa.Function, v ssa.Value, at ssa.Instruction) bool {
	want := an.Norm(v)
	gate := an.BoolEdges(fn, func(x ssa.Value) bool {
		k, ok := x.(*ssa.Call)
		return ok && an.CalleeName(k) == "dig.containsItself" && len(k.Call.Args) > 0 && an.Norm(k.Call.Args[0]) == want
	}, false)
	if len(gate) == 0 {
		return false
	}
	hit, _ := an.PathTo(fn, nil, an.IsInstr(at), an.NewGates().AddEdges(gate...))
	return hit == nil
}

// ---------------------------------------------------------------------------
// Rules that report genuine defects recorded as KNOWN FINDINGS (second defect hunt, DESIGN 9.12): each states the
// structural condition the property needs and that today's tree does not meet; the repair is a design decision of
// the maintainers, not a small patch.

// ruleProviderFirst (G-provider-first, C04).
func ruleProviderFirst(rule string) RuleFn {
	return func(c *an.Ctx) {
		c.Rule(rule, "G-provider-first: paramSingle.Build consults decorators and decorated values only for a key that has a visible constructor: a look-up of the providers (getValueProviders / getAllValueProviders) lies on every path to buildWithDecorators and to the decorated-value look-up. C04 ties availability to constructors: 'no constructor visible' must give an error (or the zero value for an optional field), whatever decorators exist")
		fn := c.Fn(rule, "(dig.paramSingle).Build")
		if fn == nil {
			return
		}
		var provs []ssa.Instruction
		for _, nm := range []string{"getValueProviders", "getAllValueProviders"} {
			for _, k := range invokeNamed(fn, nm) {
				provs = append(provs, k)
			}
		}
		var uses []ssa.Instruction
		for _, k := range methodCalls(fn, "(dig.paramSingle).buildWithDecorators") {
			uses = append(uses, k)
		}
		for _, k := range methodCalls(fn, "(dig.paramSingle).getDecoratedValue") {
			uses = append(uses, k)
		}
		good := len(uses) > 0
		var at ssa.Instruction
		for _, u := range uses {
			if hit, _ := an.PathTo(fn, nil, an.IsInstr(u), an.NewGates().AddInstr(provs...)); hit != nil {
				good, at = false, u
			}
		}
		c.Check(good, rule, "paramSingle.Build consults decorators only for a key that has a visible constructor", "providers looked up first", "a decorator (or a value an earlier run of a decorator left behind) is used for a key that has no visible constructor: Decorate(func() *A) without any constructor of *A gives an optional *A field a non-zero value, and a required *A - 'missing type' at first - is served after any other Invoke made the decorator run; a constructor is executed although its direct dependency has no constructor", at, nil)
	}
}

// ruleExportHome (W-export-home, C08).
func ruleExportHome(rule string) RuleFn {
	return func(c *an.Ctx) {
		c.Rule(rule, "W-export-home: a constructor provided with Export(true) is registered in the scope it was provided to as well as in the root: in Scope.provide the providers map of the original scope is updated too. 'When several enclosing scopes provide the same key the nearest one is used' - the scope that provided the exported constructor is the nearest one for itself and its descendants")
		fn := c.Fn(rule, "(*dig.Scope).provide")
		if fn == nil {
			return
		}
		home := false
		an.Instrs(fn, func(in ssa.Instruction) {
			if mu, ok := in.(*ssa.MapUpdate); ok && strings.HasSuffix(an.Norm(mu.Map), ".providers") {
				// the map of the scope the call was made on: the parameter itself, not the phi of (root, s)
				if an.Norm(mu.Map) == "p:s.providers" {
					if _, isPhi := an.Resolve(mu.Map).(*ssa.Phi); !isPhi && !strings.Contains(an.Norm(mu.Map), "φ") {
						// p:s is the spilled/renamed target scope in this function; the original scope is origScope
					}
				}
				if strings.Contains(an.Norm(mu.Map), "origScope") {
					home = true
				}
			}
		})
		// the target scope variable is a phi of rootScope() and the receiver: a registration in the receiver's own
		// map exists only if some MapUpdate addresses the receiver unconditionally
		an.Instrs(fn, func(in ssa.Instruction) {
			mu, ok := in.(*ssa.MapUpdate)
			if !ok {
				return
			}
			fa, ok := mu.Map.(*ssa.UnOp)
			if !ok {
				return
			}
			f, ok := fa.X.(*ssa.FieldAddr)
			if !ok || an.FieldName(f.X.Type(), f.Field) != "providers" {
				return
			}
			if _, isParam := f.X.(*ssa.Parameter); isParam {
				home = true
			}
		})
		c.Check(home, rule, "an exported constructor is also registered in the scope it was provided to", "origScope.providers updated", "Scope.provide files an exported constructor under the root only: child.Provide(f, Export(true)) while an ancestor of child other than the root provides the same key makes child (and its descendants) receive the ancestor's value - only the root sees child's constructor - and child.Provide(g) for the same key is accepted next to it", nil, nil)
	}
}

// ruleOnStackOwn (G-onstack-own, C12).
func ruleOnStackOwn(rule string) RuleFn {
	return func(c *an.Ctx) {
		c.Rule(rule, "G-onstack-own: a decorator that is running is skipped only when the request comes from that decorator itself (its own parameter of the decorated key must see the next outer value); any other function that resolves the key while the decorator runs - a constructor the decorator depends on - must not silently receive the undecorated value: the skip on the State() == decoratorOnStack edge is qualified by a test of who is asking, or ends in an error")
		for _, nm := range []string{"(dig.paramSingle).buildWithDecorators", "(dig.paramGroupedSlice).callGroupDecorators"} {
			fn := c.Fn(rule, nm)
			if fn == nil {
				continue
			}
			onst := an.EdgesWhere(fn, func(ft an.Fact) bool {
				return strings.Contains(ft.S, ".State() == ") && !strings.HasPrefix(ft.S, "!")
			})
			good := len(onst) > 0
			for _, e := range onst {
				// between the on-stack edge and the continuation of the search there is another test or an error exit
				tgt := e.From.Succs[e.Succ]
				qualified := false
				seen := map[*ssa.BasicBlock]bool{}
				stack := []*ssa.BasicBlock{tgt}
				for len(stack) > 0 && !qualified {
					b := stack[len(stack)-1]
					stack = stack[:len(stack)-1]
					if seen[b] || b.Comment == "rangeindex.loop" || b.Comment == "for.loop" || b.Comment == "for.post" {
						continue
					}
					seen[b] = true
					for _, in := range b.Instrs {
						switch x := in.(type) {
						case *ssa.If:
							qualified = true
						case *ssa.Return:
							if isErrorExit(x) {
								qualified = true
							}
						}
					}
					stack = append(stack, b.Succs...)
				}
				if !qualified {
					good = false
				}
			}
			c.Check(good, rule, "an on-stack decorator is skipped only for its own parameters in "+nm, "skip qualified by the requester or reported as a cycle", "every look-up of the key skips a running decorator: Provide(Conf), Provide(func(Conf) *Client), Decorate(func(Conf, *Client) Conf), Invoke(func(*Client, Conf)) succeeds, *Client was built from the UNDECORATED Conf (and is cached that way) while the invoked function gets the decorated one - a dependency cycle through the decorator that is neither reported nor resolved consistently", nil, nil)
		}
	}
}

// ruleSoftGlobal (L-soft-global, C15/C11).
func ruleSoftGlobal(rule string) RuleFn {
	return func(c *an.Ctx) {
		c.Rule(rule, "L-soft-global: soft value groups are built after EVERYTHING else the function asks for, wherever they stand in the encoding of its signature: paramList.BuildList takes part in the deferral (it tests for soft groups, or hands a queue down to paramObject.Build) - deferring soft groups only among the direct fields of one parameter object makes the members a soft group sees depend on whether its sibling is a field of the same struct, of an enclosing struct, or another positional parameter")
		fn := c.Fn(rule, "(dig.paramList).BuildList")
		if fn == nil {
			return
		}
		mentions := false
		an.Instrs(fn, func(in ssa.Instruction) {
			switch x := in.(type) {
			case *ssa.FieldAddr:
				if an.FieldName(x.X.Type(), x.Field) == "Soft" {
					mentions = true
				}
			case *ssa.Field:
				if an.FieldName(x.X.Type(), x.Field) == "Soft" {
					mentions = true
				}
			case ssa.CallInstruction:
				// a Build variant that takes a queue/flag besides the store
				if x.Common().IsInvoke() && strings.HasPrefix(x.Common().Method.Name(), "Build") && len(x.Common().Args) > 1 {
					mentions = true
				}
				if !x.Common().IsInvoke() && strings.Contains(strings.ToLower(an.CalleeName(x)), "soft") {
					mentions = true
				}
			}
		})
		c.Check(mentions, rule, "soft groups nested in parameter objects are deferred behind the whole parameter list", "BuildList takes part in the soft deferral", "soft groups are deferred only among the direct fields of one dig.In struct: with a constructor returning {Logger, Handler `group:\"handlers\"`}, In{Handlers soft; Logger} receives 1 handler, but In{Groups In{Handlers soft}; Logger} and func(g Groups, l *Logger) receive 0 - the same function in three encodings of its signature", nil, nil)
	}
}

// ruleCyclePathClosed (X-cycle-closed, C05): "a reported cycle path is a real closed path".
func ruleCyclePathClosed(rule string) RuleFn {
	return func(c *an.Ctx) {
		c.Rule(rule, "X-cycle-closed: Scope.cycleDetectedError lists only the constructor nodes of the cycle IsAcyclic reported (value-group nodes are not listed). The reported cycle [n0 ... n0] starts and ends with the same node; if that node is a group node, dropping it leaves an OPEN chain (X depends on A) - so the function looks at what kind of node cycle[0] is and, when it is not a constructor, closes the path by repeating its first entry")
		fn := c.Fn(rule, "(*dig.Scope).cycleDetectedError")
		if fn == nil {
			return
		}
		// an append of path[0] to path
		closes := false
		var closing []ssa.Instruction
		an.Instrs(fn, func(in ssa.Instruction) {
			k, ok := in.(*ssa.Call)
			if !ok {
				return
			}
			b, ok := k.Common().Value.(*ssa.Builtin)
			if !ok || b.Name() != "append" || len(k.Common().Args) != 2 {
				return
			}
			was := closes
			defer func() {
				if closes && !was {
					closing = append(closing, in)
				}
			}()
			if s := an.Norm(k.Common().Args[1]); regexp.MustCompile(`\[0\]`).MatchString(s) && !strings.Contains(s, "p:cycle[0]") {
				closes = true
			}
			// append(path, path[0]): the element sits in the variadic slice
			first := an.Norm(k.Common().Args[0])
			if sl, ok := k.Common().Args[1].(*ssa.Slice); ok {
				if al, ok := sl.X.(*ssa.Alloc); ok {
					for _, r := range an.Referrers(al) {
						if ia, ok := r.(*ssa.IndexAddr); ok {
							for _, rr := range an.Referrers(ia) {
								if st, ok := rr.(*ssa.Store); ok && an.Norm(st.Val) == first+"[0]" {
									closes = true
								}
							}
						}
					}
				}
			}
		})
		looksAtFirst := false
		an.Instrs(fn, func(in ssa.Instruction) {
			if k, ok := in.(ssa.CallInstruction); ok && strings.HasSuffix(an.CalleeName(k), ".Lookup") {
				for _, a := range k.Common().Args {
					if strings.Contains(an.Norm(a), "p:cycle[0]") {
						looksAtFirst = true
					}
				}
			}
		})
		// polarity: the path is closed exactly when cycle[0] is NOT a constructor node - every way to the closing
		// append crosses the failed-assertion edge of Lookup(cycle[0]).(*constructorNode) - and it is closed whenever
		// cycle and path are non-empty (the closing append stays reachable with the "empty" edges deleted)
		if closes && looksAtFirst {
			notCtor := an.BoolEdges(fn, func(v ssa.Value) bool {
				ex, ok := v.(*ssa.Extract)
				if !ok || ex.Index != 1 {
					return false
				}
				ta, ok := ex.Tuple.(*ssa.TypeAssert)
				return ok && ta.CommaOk && an.IsDigNamed(ta.AssertedType, "constructorNode") && strings.Contains(an.Norm(ta.X), "p:cycle[0]")
			}, false)
			empty := an.EdgesWhere(fn, func(ft an.Fact) bool {
				if os.Getenv("VERIF_DEBUG_FACTS") == "cycle-closed" {
					fmt.Fprintln(os.Stderr, "fact:", ft.S)
				}
				return regexp.MustCompile(`^\(len\((p:cycle|φt\d+|[^()]*path[^()]*)\) (<= 0|== 0|< 1)\)$`).MatchString(ft.S)
			})
			for _, cl := range closing {
				if hit, _ := an.PathTo(fn, nil, an.IsInstr(cl), an.NewGates().AddEdges(notCtor...)); hit != nil || len(notCtor) == 0 {
					closes = false
				}
				if hit, _ := an.PathTo(fn, nil, an.IsInstr(cl), an.NewGates().AddEdges(empty...)); hit == nil {
					closes = false
				}
			}
		}
		c.Check(closes && looksAtFirst, rule, "cycleDetectedError closes the path when the cycle was entered at a value-group node", "cycle[0] not a constructor -> path = append(path, path[0])", "the reported path can be an open chain: Provide(func(in{[]*X `group:\"g\"`}) *A) and then Provide(func(*A) *X, Group(\"g\")) is rejected with the path 'X depends on A' (two entries, not closed), while the same two Provides in the other order report 'X -> A -> X'", nil, nil)
	}
}

// ruleTagChars (G-tag-chars, C15) - KNOWN FINDING.
func ruleTagChars(rule string) RuleFn {
	return func(c *an.Ctx) {
		c.Rule(rule, "G-tag-chars: a restriction the options put on the characters of a name or group name (provideOptions.Validate rejects a backquote) holds for the name and group tags of result-object fields as well: the same test is made where a tag enters the IR (newResultObjectField, newResultGrouped, newResultObject) or where both routes meet (newResult). C15 demands that the same registrations are accepted through either encoding")
		isBackquoteTest := func(k ssa.CallInstruction) bool {
			nm := an.CalleeName(k)
			if !strings.HasPrefix(nm, "strings.Contains") && !strings.HasPrefix(nm, "strings.Index") {
				return false
			}
			for _, a := range k.Common().Args {
				if kc, ok := a.(*ssa.Const); ok && kc.Value != nil && (kc.Value.String() == "96" || kc.Value.ExactString() == "\"`\"" || strings.Contains(kc.Value.ExactString(), "`")) {
					return true
				}
			}
			return false
		}
		count := func(names ...string) int {
			n := 0
			for _, nm := range names {
				fn := c.P.Func(nm)
				if fn == nil {
					continue
				}
				c.See(fn)
				an.Instrs(fn, func(in ssa.Instruction) {
					if k, ok := in.(ssa.CallInstruction); ok && isBackquoteTest(k) {
						n++
					}
				})
			}
			return n
		}
		inOptions := count("(*dig.provideOptions).Validate", "(dig.provideOptions).Validate")
		if inOptions == 0 {
			c.OKAt(rule, "result tags are held to the character restrictions of the Name and Group options", "the options restrict nothing", "-")
			return
		}
		inTags := count("dig.newResultObjectField", "dig.newResultGrouped", "dig.newResultObject", "dig.newResult")
		fn := c.P.Func("dig.newResultObjectField")
		pos := "-"
		if fn != nil {
			pos = c.P.Pos(fn.Pos())
		}
		if inTags > 0 {
			c.OKAt(rule, "result tags are held to the character restrictions of the Name and Group options", "backquote test on the tag route", pos)
		} else {
			c.BadAt(rule, "result tags are held to the character restrictions of the Name and Group options", "Provide(f, dig.Name(\"a`b\")) is rejected (\"names cannot contain backquotes\") while the same name in a tag - struct{ dig.Out; V T \"name:\\\"a`b\\\"\" } - is accepted, and likewise for dig.Group and the group tag: the two encodings do not accept the same registrations", pos, nil)
		}
	}
}

// ruleGroupFailureOrder (L-group-failure-order, C16) - KNOWN FINDING.
func ruleGroupFailureOrder(rule string) RuleFn {
	return func(c *an.Ctx) {
		c.Rule(rule, "L-group-failure-order: which members of a value group have been executed after an Invoke of the group failed does not depend on the order the members were registered in: callGroupProviders does not return from inside its loop over the providers (it calls every member and reports the first error afterwards, or calls none after a failure in a way that later Invokes cannot observe)")
		fn := c.Fn(rule, "(dig.paramGroupedSlice).callGroupProviders")
		if fn == nil {
			return
		}
		early := false
		for _, l := range allLoops(fn) {
			inner := false
			for b := range l.body {
				for _, in := range b.Instrs {
					if k, ok := in.(*ssa.Call); ok && k.Common().IsInvoke() && k.Common().Method.Name() == "Call" {
						inner = true
					}
				}
			}
			if !inner {
				continue
			}
			if len(l.earlyExits()) > 0 {
				early = true
			}
		}
		c.Check(!early, rule, "callGroupProviders calls the members of a group independently of their registration order", "no return from inside the provider loop", "callGroupProviders stops at the first failing member: with one working and one broken member the Invoke of the group fails either way, but whether the working member has run (and a later soft consumer sees its value, or a later Invoke of one of its other results finds it cached) depends on which of the two was provided first", nil, nil)
	}
}

// ruleVizFresh (X-viz-fresh, C19).
func ruleVizFresh(rule string) RuleFn {
	return func(c *an.Ctx) {
		c.Rule(rule, "X-viz-fresh: the picture is built from the container as it is NOW: the graph Visualize renders is made by dot.NewGraph() during that very call and filled by addNodes from every scope - Scope.createGraph returns a graph that originates from a NewGraph call in its own body, never one read from a field. A kept graph is a second copy of Scope.nodes that every accepted Provide in every scope of the subtree would have to invalidate")
		fn := c.Fn(rule, "(*dig.Scope).createGraph")
		if fn == nil {
			return
		}
		good, why := true, ""
		nret := 0
		an.Instrs(fn, func(in ssa.Instruction) {
			r, ok := in.(*ssa.Return)
			if !ok || len(r.Results) != 1 {
				return
			}
			nret++
			for _, o := range an.Origins(r.Results[0]) {
				k, isCall := o.(*ssa.Call)
				if !isCall || !strings.HasSuffix(an.CalleeName(k), "dot.NewGraph") {
					good, why = false, "createGraph can return "+an.Norm(o)+", which is not a graph made by dot.NewGraph() in this call"
				}
			}
		})
		if nret == 0 {
			good, why = false, "createGraph returns nothing"
		}
		// and it fills it
		if len(an.CallsNamed(fn, "(*dig.Scope).addNodes")) == 0 {
			good, why = false, "createGraph does not fill the graph with addNodes"
		}
		c.Check(good, rule, "createGraph builds a fresh graph on every call", "dg := dot.NewGraph(); s.addNodes(dg); return dg", why+": a constructor accepted (in any scope of the subtree) after an earlier Visualize is missing from every later picture unless each such Provide invalidates the kept graph of every ancestor", nil, nil)
	}
}

// ruleSavedOnce (E-ATOM saved-once, C06).
func ruleSavedOnce(rule string) RuleFn {
	return func(c *an.Ctx) {
		c.Rule(rule, "E-ATOM (saved once): the provider list Scope.provide saves for the roll-back of a cycle rejection is the list from BEFORE the new constructor was appended, for every key: the loop that saves and appends visits every key exactly once - it ranges over a map (a set of keys), or saves only when nothing was saved for that key yet. Ranging over a list in which a value-group key can occur twice (a result object feeding one group from two fields) saves, the second time, a list that already contains the rejected constructor")
		fn := c.Fn(rule, "(*dig.Scope).provide")
		if fn == nil {
			return
		}
		n := 0
		an.Instrs(fn, func(in ssa.Instruction) {
			mu, ok := in.(*ssa.MapUpdate)
			if !ok {
				return
			}
			// the save: local map[key][]*constructorNode updated with a read of Scope.providers
			mk, isMake := an.Resolve(mu.Map).(*ssa.MakeMap)
			if !isMake || !strings.Contains(mk.Type().String(), "constructorNode") || !strings.Contains(an.Norm(mu.Value), ".providers[") {
				return
			}
			n++
			good := false
			// (a) the key comes from ranging over a map
			for _, o := range an.Origins(mu.Key) {
				if ex, ok := o.(*ssa.Extract); ok {
					if nx, ok := ex.Tuple.(*ssa.Next); ok && !nx.IsString {
						if rg, ok := nx.Iter.(*ssa.Range); ok {
							if _, isMap := rg.X.Type().Underlying().(*types.Map); isMap {
								good = true
							}
						}
					}
				}
			}
			// (b) or the save is guarded by "nothing saved yet"
			if !good {
				guard := an.EdgesWhere(fn, func(ft an.Fact) bool {
					return strings.HasPrefix(ft.S, "!") && strings.HasSuffix(ft.S, "#1") && strings.Contains(ft.S, "makemap")
				})
				if hit, _ := an.PathTo(fn, nil, an.IsInstr(mu), an.NewGates().AddEdges(guard...)); hit == nil && len(guard) > 0 {
					good = true
				}
			}
			c.Check(good, rule, "provide saves the old provider list of a key once, before appending", "range over the key set", "the save can run twice for one key (the keys are a list, and a value-group key may occur in it twice): the second save already contains the new constructor, the roll-back of a cycle rejection puts the rejected constructor back into Scope.providers while its graph node is gone - it is executed later, or the next Invoke panics in the cycle check with an index out of range", mu, nil)
		})
		c.Floor(rule, "saves of old provider lists in provide", n, 1)
	}
}

// ruleDecoratorMarked (W-decorator-marked).
func ruleDecoratorMarked(rule string) RuleFn {
	return func(c *an.Ctx) {
		c.Rule(rule, "W-decorator-marked: the error a decorator returns travels inside a marker link of its own (errDecoratorFailed), the way a constructor's travels inside errConstructorFailed: decoratorNode.Call returns the non-nil error of its function only wrapped in that literal. Every walker that must not look inside what a user function returned - RootCause, IsCycleDetected, missingDependencies (the optional test), updateGraph and CanVisualizeError - recognises the boundary by these two types; without the marker a decorator that passes on another container's dig error is taken apart (RootCause), reported as a cycle of this container, hidden by an optional parameter, or drawn as this container's missing type")
		fn := c.Fn(rule, "(*dig.decoratorNode).Call")
		if fn == nil {
			return
		}
		ext := methodCalls(fn, "(dig.resultList).ExtractList")
		good, why := len(ext) == 1, "ExtractList is not called exactly once"
		if good {
			nonNil := an.NonNilErrEdges(fn, ext[0], 0)
			okWrap := false
			an.Instrs(fn, func(in ssa.Instruction) {
				al, ok := in.(*ssa.Alloc)
				if !ok || !isConstruction(al) || !an.IsDigNamed(al.Type(), "errDecoratorFailed") {
					return
				}
				for _, st := range an.StoresToField(fn, "errDecoratorFailed", "Reason") {
					if strings.Contains(an.Norm(st.Val), ".ExtractList(") {
						okWrap = true
					}
				}
			})
			if !okWrap {
				good, why = false, "the decorator's error is not wrapped in an errDecoratorFailed literal"
			}
			// no return of the bare error
			for _, e := range nonNil {
				first := e.From.Succs[e.Succ].Instrs[0]
				bare := func(i ssa.Instruction) bool {
					r, ok := i.(*ssa.Return)
					return ok && len(r.Results) == 1 && strings.HasSuffix(an.Norm(an.Resolve(r.Results[0])), ".ExtractList("+strings.SplitN(an.Norm(ext[0]), ".ExtractList(", 2)[1])
				}
				if hit, _ := an.PathTo(fn, first, bare, nil); hit != nil || bare(first) {
					good, why = false, "decoratorNode.Call returns the decorator's error bare"
				}
			}
		}
		c.Check(good, rule, "decoratorNode.Call marks the error its function returned", "return errDecoratorFailed{Reason: err}", why+": a decorator returning the dig error of another container (a nested Invoke's failure) has it taken apart by RootCause, makes IsCycleDetected true for another container's cycle, is swallowed by an optional parameter, and has the foreign missing type drawn by Visualize - the very defects already repaired for constructors", nil, nil)
	}
}

// ruleGroupNearest (X-group-nearest).
func ruleGroupNearest(rule string) RuleFn {
	return func(c *an.Ctx) {
		c.Rule(rule, "X-group-nearest: a value group is decorated like a single value: paramGroupedSlice.callGroupDecorators walks from the requesting scope outward and calls ONE decorator - the nearest that is not already running - and then stops. A decorator that consumes the group pulls the next outer one in while its own arguments are built, so decorators still apply outermost first; a decorator that replaces the group ends the chain. Calling every enclosing decorator runs decorators (and the constructors they need) that the request does not depend on, lets their failures fail it, and lets a decorator registered later in an ancestor break a consumer below a nearer one")
		fn := c.Fn(rule, "(dig.paramGroupedSlice).callGroupDecorators")
		if fn == nil {
			return
		}
		calls := an.InvokesOf(fn, "decorator", "Call")
		if len(calls) == 0 {
			c.BadAt(rule, "callGroupDecorators calls the nearest group decorator only", "no decorator.Call in callGroupDecorators", c.P.Pos(fn.Pos()), nil)
			return
		}
		good, why := true, ""
		for _, k := range calls {
			isCall := func(i ssa.Instruction) bool {
				for _, k2 := range calls {
					if i == ssa.Instruction(k2) {
						return true
					}
				}
				return false
			}
			if hit, _ := an.PathTo(fn, k, isCall, nil); hit != nil {
				good, why = false, "after one decorator was called the walk goes on and calls the decorators of the other enclosing scopes as well"
			}
			outward := false
			for _, l := range allLoops(fn) {
				// the call that is followed by a break is not in the natural loop (it never returns to the header):
				// it belongs to the loop when a block of the loop's body other than the header dominates it
				in := false
				for b := k.Block(); b != nil && !in; b = b.Idom() {
					in = l.body[b] && b != l.header
				}
				if in && l.header.Comment == "rangeindex.loop" && l.over == "p:c.storesToRoot()" {
					outward = true
				}
				if in && l.header.Comment == "for.loop" && isCountingPhi(l.header.Instrs[len(l.header.Instrs)-1].(*ssa.If).Cond) {
					outward = true
				}
			}
			if good && !outward {
				good, why = false, "the walk does not go from the requesting scope outward (storesToRoot in ascending order)"
			}
		}
		// the nearest decorator is passed over only while it is running: from "this scope has a decorator" every path
		// either calls it or takes the on-stack edge; a decorator that already ran ends the walk like one that runs now
		// (its Call is a no-op), it is never skipped in favour of the next one out
		if good {
			found := an.BoolEdges(fn, func(v ssa.Value) bool {
				ex, ok := v.(*ssa.Extract)
				if !ok || ex.Index != 1 {
					return false
				}
				k, ok := ex.Tuple.(*ssa.Call)
				return ok && k.Call.IsInvoke() && k.Call.Method.Name() == "getGroupDecorator"
			}, true)
			onStackC, _ := digConst(c, "decoratorOnStack")
			onStack := an.EdgesWhere(fn, func(ft an.Fact) bool {
				// a predicate method of the decorator interface that returns state == decoratorOnStack is the same test
				if k, isCall := ft.Cond.(*ssa.Call); isCall && k.Common().IsInvoke() {
					if sop, ok := onStackPredicate(c, k.Common().Method.Name(), onStackC); ok {
						return (sop == "==") != ft.Neg
					}
					return false
				}
				return strings.HasSuffix(ft.S, ".State() == "+onStackC+")") && !strings.HasPrefix(ft.S, "!")
			})
			var ci []ssa.Instruction
			for _, k := range calls {
				ci = append(ci, k)
			}
			if len(found) == 0 {
				good, why = false, "no test of getGroupDecorator's found result"
			}
			for _, e := range found {
				first := e.From.Succs[e.Succ].Instrs[0]
				leaves := func(i ssa.Instruction) bool {
					if _, ok := i.(*ssa.Return); ok {
						return true
					}
					// the next round of the walk: another look-up
					k, ok := i.(*ssa.Call)
					return ok && k.Call.IsInvoke() && k.Call.Method.Name() == "getGroupDecorator"
				}
				isCall := false
				for _, k := range ci {
					if k == first {
						isCall = true
					}
				}
				if isCall {
					continue
				}
				if hit, _ := an.PathTo(fn, first, leaves, an.NewGates().AddInstr(ci...).AddEdges(onStack...)); hit != nil {
					good, why = false, "a decorator that is found and not running can be passed over without being called (only State() == decoratorOnStack may skip it): once the nearest decorator has run, later requests run the next one out - and the constructors it needs - although the nearest one's output is what is delivered"
				}
			}
		}
		c.Check(good, rule, "callGroupDecorators calls the nearest group decorator only", "range storesToRoot: first decorator not on the stack, Call, stop", why+": root Provide(feeder, group g), root Decorate(outer consuming g), child Decorate(inner replacing g), child Invoke(consumer of g) runs outer and feeder although the request does not need them, and fails if one of them fails - the same history with a single value does neither", calls[0], nil)
	}
}
