package rules

import (
	"fmt"
	"go/token"
	"go/types"
	"regexp"
	"sort"
	"strings"

	"golang.org/x/tools/go/ssa"

	"verif/checker/internal/an"
)

// Rules added after the fifth round of seeded changes and the second sweep
// (notes/sweep2.json). See DESIGN.md 9.9.

func successReturn(i ssa.Instruction) bool {
	r, ok := i.(*ssa.Return)
	return ok && !isErrorExit(r)
}

// ruleFreshGroupNode (G-fresh-group): a value-group parameter/result node is
// built from the tag it was declared with.
func ruleFreshGroupNode(rule string) RuleFn {
	return func(c *an.Ctx) {
		c.Rule(rule, "G-fresh-group: every non-error return of newParamGroupedSlice and newResultGrouped returns the node this very call built from its own tag (the local literal whose Group/Soft/Flatten fields were stored from parseGroupString's result) - never a node found elsewhere: a shared or cached node carries the flags (soft!) of whoever created it first")
		for _, nm := range []string{"dig.newParamGroupedSlice", "dig.newResultGrouped"} {
			fn := c.Fn(rule, nm)
			if fn == nil {
				continue
			}
			n := 0
			an.Instrs(fn, func(in ssa.Instruction) {
				r, ok := in.(*ssa.Return)
				if !ok || isErrorExit(r) {
					return
				}
				n++
				good := false
				v := r.Results[0]
				if ld, ok := v.(*ssa.UnOp); ok && ld.Op == token.MUL {
					if al, ok := ld.X.(*ssa.Alloc); ok {
						// the local literal: its Group field is stored from parseGroupString(...)#0.Name
						for _, rf := range an.Referrers(al) {
							if fa, ok := rf.(*ssa.FieldAddr); ok && an.FieldName(fa.X.Type(), fa.Field) == "Group" {
								for _, rr := range an.Referrers(fa) {
									if st, ok := rr.(*ssa.Store); ok && strings.Contains(an.Norm(an.Resolve(st.Val)), "dig.parseGroupString(") {
										good = true
									}
								}
							}
						}
					}
				}
				c.Check(good, rule, nm+" returns the node it built from its own tag", "the local literal", nm+" can return "+an.Norm(v)+": a node that was not built from this field's tag (its soft/flatten flags and group name belong to another declaration)", r, nil)
			})
			c.Floor(rule, "success returns of "+nm, n, 1)
			if nm == "dig.newParamGroupedSlice" {
				// ... and with a graph node of its own, with its own orders map: every successful return has
				// registered the node (c.newGraphNode(&pg, pg.orders)), and the orders map is the one this call made.
				// A node or an orders map shared with an earlier consumer survives the roll-back of the registration
				// that created it and then points at whatever node takes the freed slot
				var regs []ssa.Instruction
				an.Instrs(fn, func(in ssa.Instruction) {
					if k, ok := in.(ssa.CallInstruction); ok && k.Common().IsInvoke() && k.Common().Method.Name() == "newGraphNode" {
						regs = append(regs, in)
					}
				})
				okReg := len(regs) > 0
				var at ssa.Instruction
				an.Instrs(fn, func(in ssa.Instruction) {
					r, ok := in.(*ssa.Return)
					if !ok || isErrorExit(r) {
						return
					}
					if hit, _ := an.PathTo(fn, nil, an.IsInstr(r), an.NewGates().AddInstr(regs...)); hit != nil {
						okReg, at = false, r
					}
				})
				ownOrders := true
				for _, st := range storesToFieldNamed(fn, "orders") {
					if _, isMake := an.Resolve(st.Val).(*ssa.MakeMap); !isMake {
						ownOrders, at = false, st
					}
				}
				c.Check(okReg && ownOrders, rule, nm+" registers a graph node of its own for every consumer", "newGraphNode on every successful path; orders map made here", "a value-group parameter can be accepted without a graph node of its own (or with the orders map of another consumer): the shared node outlives the roll-back of the registration that created it, its stale index then names whatever node is appended next - a fabricated self-edge rejects an acyclic registration, or accepts it in one order of a block and not in the other", at, nil)
			}
		}
	}
}

// storesToFieldNamed: stores into a field called name of a local struct of fn.
func storesToFieldNamed(fn *ssa.Function, name string) []*ssa.Store {
	var out []*ssa.Store
	an.Instrs(fn, func(in ssa.Instruction) {
		st, ok := in.(*ssa.Store)
		if !ok {
			return
		}
		if fa, ok := st.Addr.(*ssa.FieldAddr); ok && an.FieldName(fa.X.Type(), fa.Field) == name {
			out = append(out, st)
		}
	})
	return out
}

// ruleIgnoreUnexportedFirst (G-ignore-first).
func ruleIgnoreUnexportedFirst(rule string) RuleFn {
	return func(c *an.Ctx) {
		c.Rule(rule, "G-ignore-first: newParamObject determines the ignore-unexported setting of the dig.In embed before it examines any other field: no call of isIgnoreUnexportedSet is reachable after a call of newParamObjectField, and no unexported-field decision (PkgPath test) precedes it - otherwise the verdict for a field depends on whether it is declared before or after the dig.In embed")
		fn := c.Fn(rule, "dig.newParamObject")
		if fn == nil {
			return
		}
		ig := an.CallsNamed(fn, "dig.isIgnoreUnexportedSet")
		pf := an.CallsNamed(fn, "dig.newParamObjectField")
		if !c.Floor(rule, "isIgnoreUnexportedSet/newParamObjectField calls", len(ig)+len(pf), 2) {
			return
		}
		bad := false
		for _, f := range pf {
			for _, g := range ig {
				if hit, _ := an.PathTo(fn, f, an.IsInstr(g), nil); hit != nil {
					bad = true
				}
			}
		}
		// PkgPath tests before the flag is known
		an.Instrs(fn, func(in ssa.Instruction) {
			iff, ok := in.(*ssa.If)
			if !ok || !strings.Contains(an.CondString(iff.Cond, false), ".PkgPath") {
				return
			}
			for _, g := range ig {
				if hit, _ := an.PathTo(fn, iff, an.IsInstr(g), nil); hit != nil {
					bad = true
				}
			}
		})
		// the scan for the embed looks at every field and reads the tag of the dig.In embed itself
		for _, g := range ig {
			isIn := an.EdgesWhere(fn, func(ft an.Fact) bool {
				return strings.HasSuffix(ft.S, ".Type == *g:_inType)") && !strings.HasPrefix(ft.S, "!")
			})
			if hit, _ := an.PathTo(fn, nil, an.IsInstr(g), an.NewGates().AddEdges(isIn...)); hit != nil || len(isIn) == 0 {
				bad = true
			}
			for _, l := range allLoops(fn) {
				// the call sits in the loop or on its way out of it (it is followed by a break)
				if l.body[g.Block()] || (len(l.header.Succs) > 0 && reaches(l.header.Succs[0], g.Block()) && !reaches(l.header.Succs[1], l.header.Succs[0])) {
					if all, _ := loopCoversAll(l); !all {
						bad = true
					}
				}
			}
		}
		c.Check(!bad, rule, "newParamObject reads the ignore-unexported tag before looking at any field", "scan for the dig.In embed first, then the fields", "fields are examined before (or interleaved with) reading the ignore-unexported tag: an unexported field declared before the dig.In embed is rejected although the tag allows it", nil, nil)
	}
}

// ruleReasonSet (W-reason-set): wrapping errors carry their cause.
func ruleReasonSet(rule string) RuleFn {
	return func(c *an.Ctx) {
		c.Rule(rule, "W-reason-set: every composite literal of a dig error type that has a Reason field (errProvide, errConstructorFailed, errArgumentsFailed, errMissingDependencies, errParamSingleFailed, errParamGroupFailed) stores a non-nil-constant error value into it: the chain RootCause and IsCycleDetected walk is never cut at a wrapper")
		n := 0
		for _, fn := range c.P.Funcs {
			an.Instrs(fn, func(in ssa.Instruction) {
				al, ok := in.(*ssa.Alloc)
				if !ok || !isConstruction(al) {
					return
				}
				nt, ok := derefNamed(al.Type())
				if !ok || !isDigErr(c, nt) {
					return
				}
				has := false
				if stt, isSt := nt.Underlying().(*types.Struct); isSt {
					for i := 0; i < stt.NumFields(); i++ {
						if stt.Field(i).Name() == "Reason" {
							has = true
						}
					}
				}
				if !has {
					return
				}
				n++
				v := fieldStore(al, "Reason")
				good := v != nil
				if good {
					if k, isC := an.Resolve(v).(*ssa.Const); isC && k.IsNil() {
						good = false
					}
				}
				c.Check(good, rule, "the "+nt.Obj().Name()+" built in "+an.ShortName(fn)+" carries its cause", "Reason: <the failing error>", "a "+nt.Obj().Name()+" is built without a Reason: RootCause stops at the wrapper and errors.Is/As/IsCycleDetected no longer see what actually failed", al, nil)
			})
		}
		c.Floor(rule, "wrapping error literals", n, 8)
	}
}

// ruleRootCauseLoop (X-rootcause-loop).
func ruleRootCauseLoop(rule string) RuleFn {
	return func(c *an.Ctx) {
		c.Rule(rule, "X-rootcause-loop: RootCause finds the outermost dig.Error with errors.As ONCE and then walks down link by link (errors.Unwrap in a loop, continuing only while the next link itself is a dig.Error by type assertion): it unwraps repeatedly, and it stops at the first link that dig did not create. errors.As inside the loop would search through the user's error as well: a constructor error that wraps a dig error (a nested Invoke's failure passed on with %w) would be skipped and RootCause would return something the user's function never returned")
		fn := c.Fn(rule, "dig.RootCause")
		if fn == nil {
			return
		}
		as := an.CallsNamed(fn, "errors.As")
		uw := an.CallsNamed(fn, "errors.Unwrap")
		// some unwrap is repeated (a loop may be primed by one unwrap in front of it)
		loops := false
		for _, u := range uw {
			if an.InLoop(u.(ssa.Instruction)) {
				loops = true
			}
		}
		c.Check(loops, rule, "RootCause keeps unwrapping while the error is a dig.Error", "errors.Unwrap in a loop", "RootCause unwraps at most once: for a failure two or more constructors deep it returns a dig wrapper instead of the user's error", nil, nil)
		asInLoop := false
		for _, a := range as {
			if an.InLoop(a.(ssa.Instruction)) {
				asInLoop = true
			}
		}
		// (c) whatever a constructor returned is the root cause, even if it is itself a dig error (of another container)
		cf := an.BoolEdges(fn, func(v ssa.Value) bool { return taOK(v, "errConstructorFailed") }, true)
		cfD := an.BoolEdges(fn, func(v ssa.Value) bool { return taOK(v, "errDecoratorFailed") }, true)
		okCF := len(cf) > 0 && len(cfD) > 0
		cf = append(cf, cfD...)
		for _, e := range cf {
			first := e.From.Succs[e.Succ].Instrs[0]
			isReasonRet := func(i ssa.Instruction) bool {
				r, ok := i.(*ssa.Return)
				return ok && len(r.Results) == 1 && strings.HasSuffix(an.Norm(r.Results[0]), ".Reason")
			}
			hit, _ := an.PathTo(fn, first, isReasonRet, an.NewGates().AddInstr(func() []ssa.Instruction {
				var out []ssa.Instruction
				for _, u := range uw {
					out = append(out, u.(ssa.Instruction))
				}
				return out
			}()...))
			if hit == nil && !isReasonRet(first) {
				okCF = false
			}
		}
		c.Check(okCF, rule, "RootCause returns what the constructor or decorator returned", "errConstructorFailed / errDecoratorFailed -> its Reason, without unwrapping further", "RootCause unwraps below an errConstructorFailed or errDecoratorFailed link (or does not know one of them): a constructor or decorator that returns a dig error as is (the failure of a nested container) gets that error taken apart, and RootCause returns something the constructor never returned", nil, nil)
		c.Check(len(as) >= 1 && !asInLoop, rule, "RootCause stops at the first link that is not a dig.Error", "errors.As once, then type assertions link by link", "RootCause calls errors.As on every hop, which looks through links dig did not create: for a constructor that returns fmt.Errorf(\"...: %w\", errOfNestedInvoke) it returns the nested dig error (or its cause), not the error the constructor returned - RootCause/errors.As(dig.Error) then classify a user failure as a dig failure", nil, nil)
	}
}

// ruleOptionConstants (X-option-const).
func ruleOptionConstants(rule string) RuleFn {
	return func(c *an.Ctx) {
		c.Rule(rule, "X-option-const: the flag options store the constant true into their own field and nothing else: RecoverFromPanics() -> Scope.recoverFromPanics, DeferAcyclicVerification() -> Scope.deferAcyclicVerification; an option's effect does not depend on other options or on their order")
		for _, sp := range []struct{ fn, field string }{
			{"(dig.recoverFromPanicsOption).applyOption", "recoverFromPanics"},
			{"(dig.deferAcyclicVerificationOption).applyOption", "deferAcyclicVerification"},
		} {
			fn := c.Fn(rule, sp.fn)
			if fn == nil {
				continue
			}
			n, good := 0, true
			why := ""
			an.Instrs(fn, func(in ssa.Instruction) {
				st, ok := in.(*ssa.Store)
				if !ok {
					return
				}
				fa, ok := st.Addr.(*ssa.FieldAddr)
				if !ok || !an.IsDigNamed(fa.X.Type(), "Scope") {
					return
				}
				n++
				f := an.FieldName(fa.X.Type(), fa.Field)
				if f != sp.field {
					good, why = false, "it writes Scope."+f
				} else if an.Norm(st.Val) != "true" {
					good, why = false, "it stores "+an.Norm(st.Val)+" instead of true"
				}
			})
			c.Check(good && n == 1, rule, sp.fn+" sets exactly Scope."+sp.field+" = true", "constant true", "the option does not simply set its flag: "+why, nil, nil)
		}
	}
}

// ruleDryAllResults (X-dry-all).
func ruleDryAllResults(rule string) RuleFn {
	return func(c *an.Ctx) {
		c.Rule(rule, "X-dry-all: dryInvoker fills EVERY element of its result slice with reflect.Zero of the corresponding result type: the loop over i < NumOut() has no condition inside and stores reflect.Zero(Type().Out(i)) at index i - an unset element is an invalid reflect.Value on which ExtractList panics or misreads an error")
		fn := c.Fn(rule, "dig.dryInvoker")
		if fn == nil {
			return
		}
		good := countIfs(fn) == 1
		stored := false
		an.Instrs(fn, func(in ssa.Instruction) {
			st, ok := in.(*ssa.Store)
			if !ok {
				return
			}
			m := regexp.MustCompile(`^&makeslice:t\d+\[(φt\d+|\(φt\d+ \+ 1\))\]$`).FindStringSubmatch(an.Norm(st.Addr))
			if m == nil {
				return
			}
			v := an.Norm(st.Val)
			if strings.HasPrefix(v, "reflect.Zero(") && strings.HasSuffix(v, ".Out("+m[1]+"))") {
				stored = true
			}
		})
		for _, l := range allLoops(fn) {
			if all, _ := loopCoversAll(l); !all {
				good = false
			}
		}
		c.Check(good && stored, rule, "dryInvoker produces a zero value for every result", "results[i] = reflect.Zero(ft.Out(i)) for all i", "some result of the fake call can stay an invalid reflect.Value (conditional or mis-indexed fill)", nil, nil)
	}
}

// ruleEmbedsAll (L-embeds-all) and isError.
func ruleEmbedsAll(rule string) RuleFn {
	return func(c *an.Ctx) {
		c.Rule(rule, "L-embeds-all: embedsType (behind IsIn/IsOut and every In/Out misuse check) follows EVERY embedded field of every struct it visits: the field loop runs over all i < NumField() with no exit other than exhaustion, and each Anonymous field's type is queued; isError is exactly t.Implements(error)")
		fn := c.Fn(rule, "dig.embedsType")
		if fn == nil {
			return
		}
		var loop *ssa.BasicBlock
		an.Instrs(fn, func(in ssa.Instruction) {
			if iff, ok := in.(*ssa.If); ok && strings.HasSuffix(an.CondString(iff.Cond, false), ".NumField())") && isCountingPhi(iff.Cond) {
				loop = iff.Block()
			}
		})
		good := loop != nil
		why := "no loop over all fields (i < NumField())"
		if good {
			// body = blocks reachable from the true edge that reach the header again
			body := map[*ssa.BasicBlock]bool{}
			var st []*ssa.BasicBlock
			st = append(st, loop.Succs[0])
			seen := map[*ssa.BasicBlock]bool{loop: true}
			for len(st) > 0 {
				b := st[len(st)-1]
				st = st[:len(st)-1]
				if seen[b] {
					continue
				}
				seen[b] = true
				if reaches(b, loop) {
					body[b] = true
					st = append(st, b.Succs...)
				}
			}
			push := false
			for b := range body {
				for _, s := range b.Succs {
					if !body[s] && s != loop {
						good, why = false, "the field loop can be left before all fields were looked at"
					}
				}
				for _, in := range b.Instrs {
					if k, ok := in.(*ssa.Call); ok && strings.HasSuffix(an.CalleeName(k), "List).PushBack") && (strings.HasSuffix(an.Norm(k.Common().Args[1]), ".Type)") || strings.HasSuffix(an.Norm(k.Common().Args[1]), ".Type")) {
						// guarded by the Anonymous test only
						push = true
					}
					if k, ok := in.(*ssa.Call); ok {
						if bi, isB := k.Common().Value.(*ssa.Builtin); isB && bi.Name() == "append" && len(k.Common().Args) == 2 {
							// a slice used as the work queue: the appended element is the field's type
							if sl, isS := k.Common().Args[1].(*ssa.Slice); isS {
								if al, isA := sl.X.(*ssa.Alloc); isA && al.Comment == "varargs" {
									for _, r := range an.Referrers(al) {
										if iaddr, isIA := r.(*ssa.IndexAddr); isIA {
											for _, rr := range an.Referrers(iaddr) {
												if st2, isSt := rr.(*ssa.Store); isSt && strings.HasSuffix(an.Norm(st2.Val), ".Type") {
													push = true
												}
											}
										}
									}
								}
							}
						}
					}
					if iff, ok := in.(*ssa.If); ok && !strings.HasSuffix(an.CondString(iff.Cond, false), ".Anonymous") {
						good, why = false, "a condition other than f.Anonymous decides which fields are followed"
					}
				}
			}
			if !push && good {
				good, why = false, "embedded field types are not queued"
			}
		}
		c.Check(good, rule, "embedsType follows every embedded field", "for i < NumField(): if f.Anonymous { queue f.Type }", why+": a dig.In/dig.Out reached through a later or nested embed is not recognised, the struct is treated as a plain value", nil, nil)
		if ie := c.Fn(rule, "dig.isError"); ie != nil {
			ok := false
			an.Instrs(ie, func(in ssa.Instruction) {
				if r, isR := in.(*ssa.Return); isR && an.Norm(r.Results[0]) == "p:t.Implements(*g:_errType)" {
					ok = true
				}
			})
			c.Check(ok && countIfs(ie) == 0, rule, "isError(t) is t.Implements(error)", "t.Implements(_errType)", "isError is no longer 'implements error': results of concrete error types are provided as values, their non-nil value is not treated as a failure", nil, nil)
		}
	}
}

// ruleResultIndex (X-result-index).
func ruleResultIndex(rule string) RuleFn {
	return func(c *an.Ctx) {
		c.Rule(rule, "X-result-index: newResultList records for output i either -1 (an error result) or the position its result node gets in Results: the index stored is the counter that is incremented in the same block that appends the node - one step per appended node, whatever its kind - and isError(t) is what selects -1; newResult refuses error-typed results inside result objects")
		fn := c.Fn(rule, "dig.newResultList")
		if fn == nil {
			return
		}
		good, why := false, "no store of the running result index next to the append of the result node"
		an.Instrs(fn, func(in ssa.Instruction) {
			st, ok := in.(*ssa.Store)
			if !ok || !regexp.MustCompile(`^&new:[A-Za-z_]+\.resultIndexes\[`).MatchString(an.Norm(st.Addr)) {
				return
			}
			if k, isC := st.Val.(*ssa.Const); isC && k.Value != nil {
				return // the -1 store
			}
			b := st.Block()
			app, inc := false, false
			for _, x := range b.Instrs {
				if k, ok := x.(*ssa.Call); ok {
					if bi, ok := k.Common().Value.(*ssa.Builtin); ok && bi.Name() == "append" && strings.HasSuffix(an.Norm(k.Common().Args[0]), ".Results") {
						app = true
					}
				}
				if bo, ok := x.(*ssa.BinOp); ok && bo.Op == token.ADD && bo.X == st.Val && an.Norm(bo.Y) == "1" {
					inc = true
				}
			}
			// len(rl.Results) read before the append is the same thing
			if strings.HasPrefix(an.Norm(st.Val), "len(") && strings.HasSuffix(an.Norm(st.Val), ".Results)") && app {
				inc = true
			}
			if app && inc {
				good = true
			} else {
				why = "the stored index is not advanced exactly where a node is appended"
			}
		})
		c.Check(good, rule, "newResultList maps output i to the position of its node", "resultIndexes[i] = idx; idx++ with the append", why+": ExtractList hands a returned value to the wrong result node", nil, nil)
		if nr := c.Fn(rule, "dig.newResult"); nr != nil {
			e := an.EdgesWhere(nr, an.FactIs("dig.isError(p:t)"))
			bad := len(e) == 0
			for _, ed := range e {
				if hit, _ := an.PathTo(nr, ed.From.Succs[ed.Succ].Instrs[0], successReturn, nil); hit != nil {
					bad = true
				}
				if successReturn(ed.From.Succs[ed.Succ].Instrs[0]) {
					bad = true
				}
			}
			c.Check(!bad, rule, "newResult rejects error-typed results", "isError(t) -> error", "an error type can become a provided value (a dig.Out field of type error)", nil, nil)
		}
	}
}

// ruleDecoratedBranch (G-decorated-branch).
func ruleDecoratedBranch(rule string) RuleFn {
	return func(c *an.Ctx) {
		c.Rule(rule, "G-decorated-branch: in resultSingle.Extract and resultGrouped.Extract the plain setters (setValue, submitGroupedValue) are reached only over the !decorated edge and the decorated setters only over the decorated edge - whatever the other flags (flatten) say")
		n := 0
		for _, nm := range []string{"(dig.resultSingle).Extract", "(dig.resultGrouped).Extract"} {
			fn := c.Fn(rule, nm)
			if fn == nil {
				continue
			}
			pos := an.BoolEdges(fn, func(v ssa.Value) bool { return an.Norm(v) == "p:decorated" }, true)
			neg := an.BoolEdges(fn, func(v ssa.Value) bool { return an.Norm(v) == "p:decorated" }, false)
			for _, k := range append(invokeNamed(fn, "setValue"), invokeNamed(fn, "submitGroupedValue")...) {
				n++
				hit, _ := an.PathTo(fn, nil, an.IsInstr(k), an.NewGates().AddEdges(neg...))
				c.Check(len(neg) > 0 && hit == nil, rule, nm+": "+k.Common().Method.Name()+" only for undecorated results", "dominated by !decorated", "a decorator's result can be written as a plain value/member ("+k.Common().Method.Name()+" reachable with decorated=true)", k, nil)
			}
			for _, k := range append(invokeNamed(fn, "setDecoratedValue"), invokeNamed(fn, "submitDecoratedGroupedValue")...) {
				n++
				hit, _ := an.PathTo(fn, nil, an.IsInstr(k), an.NewGates().AddEdges(pos...))
				c.Check(len(pos) > 0 && hit == nil, rule, nm+": "+k.Common().Method.Name()+" only for decorated results", "dominated by decorated", "a constructor's result can be written as a decorated value", k, nil)
			}
			// with decorated=true some decorated setter is always reached
			for _, e := range pos {
				var dset []ssa.Instruction
				for _, k := range append(invokeNamed(fn, "setDecoratedValue"), invokeNamed(fn, "submitDecoratedGroupedValue")...) {
					dset = append(dset, k)
				}
				// decorated is a parameter: once it was seen true, no !decorated edge can be taken
				hit, _ := an.PathTo(fn, e.From.Succs[e.Succ].Instrs[0], an.IsExit, an.NewGates().AddInstr(dset...).AddEdges(neg...))
				first := e.From.Succs[e.Succ].Instrs[0]
				isSet := false
				for _, d := range dset {
					if d == first {
						isSet = true
					}
				}
				c.Check(hit == nil || isSet, rule, nm+": a decorated result always reaches the decorated store", "every decorated path writes the decorated store", "with decorated=true "+nm+" can return without writing the decorated store (e.g. for flatten results)", first, nil)
			}
		}
		c.Floor(rule, "setter calls in Extract methods", n, 6)
	}
}

// ruleVizIdentity (X-viz-id): ids and order in the failure picture.
func ruleVizIdentity(rule string) RuleFn {
	return func(c *an.Ctx) {
		c.Rule(rule, "X-viz-id: newDotCtor gives the picture's constructor the node's own id (the key under which errors name the failing constructor), and updateGraph applies the collected errVisualizers from the innermost error outwards (index from len-1 down to 0), so the innermost failure is the one marked as root cause; IsAcyclic starts its searches at node 0")
		if fn := c.Fn(rule, "dig.newDotCtor"); fn != nil {
			ok := false
			an.Instrs(fn, func(in ssa.Instruction) {
				if st, isS := in.(*ssa.Store); isS && strings.HasSuffix(an.Norm(st.Addr), "complit.ID") && an.Norm(st.Val) == "p:n.id" {
					ok = true
				}
			})
			c.Check(ok, rule, "newDotCtor: ID is the constructor node's id", "ID: n.id", "the drawn constructor does not carry n.id: FailNodes/FailGroupNodes cannot find the failing constructor, nothing is coloured and everything is pruned", nil, nil)
		}
		if fn := c.Fn(rule, "dig.updateGraph"); fn != nil {
			ok := false
			for _, k := range invokeNamed(fn, "updateGraph") {
				recv := k.Common().Value
				ld, isL := recv.(*ssa.UnOp)
				if !isL {
					continue
				}
				ia, isI := ld.X.(*ssa.IndexAddr)
				if !isI {
					continue
				}
				// index = φ (starting at len-1) or φ-1 (starting at len), φ decremented each round
				idx := ia.Index
				off := 0
				if b, isB := idx.(*ssa.BinOp); isB && b.Op == token.SUB && an.Norm(b.Y) == "1" {
					idx, off = b.X, 1
				}
				ph, isP := idx.(*ssa.Phi)
				if !isP {
					continue
				}
				start, dec := false, false
				for _, e := range ph.Edges {
					s := an.Norm(e)
					if off == 0 && regexp.MustCompile(`^\(len\(.*\) - 1\)$`).MatchString(s) {
						start = true
					}
					if off == 1 && regexp.MustCompile(`^len\(.*\)$`).MatchString(s) {
						start = true
					}
					if b, isB := e.(*ssa.BinOp); isB && b.Op == token.SUB && b.X == ssa.Value(ph) && an.Norm(b.Y) == "1" {
						dec = true
					}
				}
				if start && dec {
					ok = true
				}
			}
			c.Check(ok, rule, "updateGraph marks failures from the innermost error outwards", "for i := len(errs)-1; i >= 0; i--", "the errors are applied outermost first: the outer wrapper is drawn as root cause and the real cause as a transitive failure", nil, nil)
		}
		if top := c.P.Func(isAcyclicName); top != nil {
			c.See(top)
			ok := false
			for _, k := range methodCalls(top, "dig/internal/graph.isAcyclic") {
				if ph, isP := k.Common().Args[1].(*ssa.Phi); isP {
					for _, e := range ph.Edges {
						if kc, isC := e.(*ssa.Const); isC && kc.Value != nil && kc.Value.String() == "0" {
							ok = true
						}
					}
				}
			}
			c.Check(ok, rule, "IsAcyclic starts at node 0", "for i := 0; ...", "the search does not start at node 0: a cycle reachable only from the first node is never found", nil, nil)
		}
	}
}

var _ = fmt.Sprintf

// ruleAsDistinct (G-as-distinct): no interface is listed twice for one result.
func ruleAsDistinct(rule string) RuleFn {
	return func(c *an.Ctx) {
		c.Rule(rule, "G-as-distinct: the interfaces given with dig.As are pairwise distinct by the time they become the keys of a result node: in newResult, where the group of a result is known whether it came from the dig.Group option or from a group tag, each interface type is checked against those already accepted - a comma-ok lookup in a local map keyed by the interface's reflect.Type that is also updated under that key, or an equality test against the elements collected so far - and a repeated one is rejected or skipped. Single values would be caught later by the duplicate-key check, but group keys bypass that check by design: a repeated interface makes resultGrouped.Extract submit the same member twice to one group")
		found := ""
		n := 0
		// newResult is where the option route (dig.Group) and the tag route (a group-tagged result-object field) meet: a
		// check placed earlier on one route only (provideOptions.Validate sees the option, never the tag) leaves the other open
		for _, nm := range []string{"dig.newResult"} {
			fn := c.P.Func(nm)
			if fn == nil {
				continue
			}
			c.See(fn)
			n++
			fromAs := func(v ssa.Value) bool {
				s := an.Norm(an.Resolve(v))
				return strings.Contains(s, "reflect.TypeOf(") && strings.Contains(s, ".As[")
			}
			// map form
			var looked, updated []string
			an.Instrs(fn, func(in ssa.Instruction) {
				switch x := in.(type) {
				case *ssa.Lookup:
					if _, isMap := x.X.Type().Underlying().(*types.Map); isMap && x.CommaOk && fromAs(x.Index) {
						if _, local := an.Resolve(x.X).(*ssa.MakeMap); local {
							looked = append(looked, an.Norm(an.Resolve(x.Index)))
						}
					}
				case *ssa.MapUpdate:
					if _, local := an.Resolve(x.Map).(*ssa.MakeMap); local && fromAs(x.Key) {
						updated = append(updated, an.Norm(an.Resolve(x.Key)))
					}
				case *ssa.BinOp:
					// loop form: current As type compared with an element collected so far
					if x.Op == token.EQL || x.Op == token.NEQ {
						a, b := an.Resolve(x.X), an.Resolve(x.Y)
						elemOfTypes := func(v ssa.Value) bool {
							ld, ok := v.(*ssa.UnOp)
							if !ok || ld.Op != token.MUL {
								return false
							}
							ia, ok := ld.X.(*ssa.IndexAddr)
							if !ok {
								return false
							}
							sl, ok := ia.X.Type().Underlying().(*types.Slice)
							return ok && sl.Elem().String() == "reflect.Type"
						}
						for _, pr := range [][2]ssa.Value{{a, b}, {b, a}} {
							// the current interface (or an element of the collected list) against an element of the collected list
							if (fromAs(pr[0]) || elemOfTypes(pr[0])) && elemOfTypes(pr[1]) && pr[0] != pr[1] {
								found = nm + ": comparison with the interfaces collected so far"
							}
						}
					}
				}
			})
			for _, l := range looked {
				for _, u := range updated {
					if l == u {
						found = nm + ": seen-set keyed by the interface type"
					}
				}
			}
		}
		c.Floor(rule, "functions between dig.As and the result node", n, 1)
		c.Check(found != "", rule, "dig.As: a repeated interface is detected before it becomes a key of a result node", found, "nothing between the As option and the result node compares an interface with those already listed: Provide(f, Group(\"g\"), As(new(I), new(I))) registers group key (g, I) twice on one node and every consumer of []I receives the member twice (group keys bypass the duplicate-key check)", nil, nil)
	}
}

// ruleGroupAlwaysCalls (L-group-calls): a non-soft group asks its providers every time.
func ruleGroupAlwaysCalls(rule string) RuleFn {
	return func(c *an.Ctx) {
		c.Rule(rule, "L-group-calls: in paramGroupedSlice.Build every path that takes the !Soft edge and returns an undecorated result without error passes through callGroupProviders: whether a group's constructors run is never short-cut by a 'this group was built before' memo - the constructors' own done-flags are the only cache, so a constructor added to any enclosing scope between two requests is run by the second one")
		fn := c.Fn(rule, "(dig.paramGroupedSlice).Build")
		if fn == nil {
			return
		}
		calls := an.CallsNamed(fn, "(dig.paramGroupedSlice).callGroupProviders")
		notSoft := an.BoolEdges(fn, func(v ssa.Value) bool { return an.Norm(v) == "p:pt.Soft" }, false)
		if !c.Floor(rule, "callGroupProviders calls / !Soft edges in Build", len(calls)+len(notSoft), 2) {
			return
		}
		var gates []ssa.Instruction
		for _, k := range calls {
			gates = append(gates, k)
		}
		soft := an.BoolEdges(fn, func(v ssa.Value) bool { return an.Norm(v) == "p:pt.Soft" }, true)
		bad := false
		for _, e := range notSoft {
			first := e.From.Succs[e.Succ].Instrs[0]
			isGate := false
			for _, g := range gates {
				if g == first {
					isGate = true
				}
			}
			if isGate {
				continue
			}
			hit, path := an.PathTo(fn, first, successReturn, an.NewGates().AddInstr(gates...).AddEdges(soft...))
			if successReturn(first) {
				hit = first
			}
			if hit != nil {
				bad = true
				c.Bad(rule, "a non-soft group calls its providers on every request", "a successful return is reachable on the !Soft path without callGroupProviders: members of constructors registered since an earlier request are missing", hit, an.BlockPath(c.P, path))
			}
		}
		if !bad {
			c.OK(rule, "a non-soft group calls its providers on every request", "callGroupProviders on every !Soft path", calls[0])
		}
	}
}

// ruleTypedStore (G-typed-store): the decorated-group store is type-indexed.
func ruleTypedStore(rule string) RuleFn {
	return func(c *an.Ctx) {
		c.Rule(rule, "G-typed-store: a decorated value group is stored whole under the key (Group, rt.Type) and handed to consumers whose field type IS that key type, so rt.Type must be the static type of the stored value. That holds for every grouped result except a flatten one, whose Type was replaced by its element type when the node was built: the decorated store in resultGrouped.Extract is therefore reached only with !Flatten, or findResultKeys (the validation every decorator passes through) rejects flatten results. Otherwise Decorate accepts `V [][]T `group:\"g,flatten\"``, stores a [][]T under the key of []T, and the next consumer's reflect.Value.Set panics inside Invoke")
		ok := false
		where := ""
		if fn := c.Fn(rule, "(dig.resultGrouped).Extract"); fn != nil {
			notFlat := an.BoolEdges(fn, func(v ssa.Value) bool { return an.Norm(v) == "p:rt.Flatten" }, false)
			calls := invokeNamed(fn, "submitDecoratedGroupedValue")
			all := len(calls) > 0 && len(notFlat) > 0
			for _, k := range calls {
				if hit, _ := an.PathTo(fn, nil, an.IsInstr(k), an.NewGates().AddEdges(notFlat...)); hit != nil {
					all = false
				}
			}
			if all {
				ok, where = true, "resultGrouped.Extract writes the decorated store only for non-flatten results"
			}
		}
		if fn := c.Fn(rule, "dig.findResultKeys"); fn != nil && !ok {
			flat := an.BoolEdges(fn, func(v ssa.Value) bool { return strings.HasSuffix(an.Norm(v), ".(dig.resultGrouped)#0.Flatten") }, true)
			rejects := len(flat) > 0
			for _, e := range flat {
				first := e.From.Succs[e.Succ].Instrs[0]
				if successReturn(first) {
					rejects = false
				}
				if hit, _ := an.PathTo(fn, first, successReturn, nil); hit != nil {
					rejects = false
				}
				// ... and no further key may be collected after it either
				if hit, _ := an.PathTo(fn, first, func(i ssa.Instruction) bool {
					k, isCall := i.(*ssa.Call)
					if !isCall {
						return false
					}
					bi, isB := k.Common().Value.(*ssa.Builtin)
					return isB && bi.Name() == "append"
				}, nil); hit != nil {
					rejects = false
				}
			}
			// (round 14) ... and the test covers every grouped result: the group key is read only behind its
			// not-flatten edge (a Flatten test nested under another condition lets the other branch through)
			notFlat := an.BoolEdges(fn, func(v ssa.Value) bool { return strings.HasSuffix(an.Norm(v), ".(dig.resultGrouped)#0.Flatten") }, false)
			reads := 0
			an.Instrs(fn, func(in ssa.Instruction) {
				v, isV := in.(ssa.Value)
				if !isV || !strings.HasSuffix(an.Norm(v), ".(dig.resultGrouped)#0.Group") {
					return
				}
				reads++
				if hit, _ := an.PathTo(fn, nil, an.IsInstr(in), an.NewGates().AddEdges(notFlat...)); hit != nil {
					rejects = false
				}
			})
			if reads == 0 {
				rejects = false
			}
			if rejects {
				ok, where = true, "findResultKeys rejects flatten results of decorators"
			}
		}
		// the stored slice may be of another slice type than the consumer's field: it is converted before it is handed out
		if fn := c.Fn(rule, "(dig.paramGroupedSlice).getDecoratedValues"); fn != nil {
			conv := false
			for _, k := range methodCalls(fn, "(reflect.Value).Convert") {
				if an.Norm(k.Common().Args[1]) == "p:pt.Type" {
					conv = true
				}
			}
			sameT := an.EdgesWhere(fn, func(f an.Fact) bool {
				return strings.HasSuffix(f.S, ".Type() == p:pt.Type)") || strings.HasSuffix(f.S, "(p:pt.Type == "+"") // second form unused
			})
			good := conv
			if conv {
				var gates []ssa.Instruction
				for _, k := range methodCalls(fn, "(reflect.Value).Convert") {
					gates = append(gates, k)
				}
				for _, lk := range invokeNamed(fn, "getDecoratedValueGroup") {
					okE := an.BoolEdges(fn, func(v ssa.Value) bool {
						ex, isEx := v.(*ssa.Extract)
						return isEx && ex.Tuple == ssa.Value(lk) && ex.Index == 1
					}, true)
					for _, e := range okE {
						first := e.From.Succs[e.Succ].Instrs[0]
						if hit, _ := an.PathTo(fn, first, successReturnTrue, an.NewGates().AddInstr(gates...).AddEdges(sameT...)); hit != nil {
							good = false
						}
						if successReturnTrue(first) {
							good = false
						}
					}
				}
			}
			c.Check(good, rule, "a decorated group is converted to the consumer's slice type before it is handed out", "items.Convert(pt.Type) unless the types are identical", "the decorated slice is handed to the consumer as stored: when the decorator declared another slice type of the same elements, reflect.Value.Set panics inside Invoke (or, keyed by slice type, the decoration is silently lost)", nil, nil)
		}
		c.Check(ok, rule, "a decorated group is stored under the type of the stored value", where, "a decorator's flatten group result is accepted and its whole value stored under the element type's group key: Decorate(func(..) struct{dig.Out; V [][]int `group:\"x,flatten\"`}) succeeds and the next Invoke consuming []int `group:\"x\"` panics in reflect.Value.Set", nil, nil)
	}
}

// ruleDotLeaves (X-dot-leaves): what the leaf result kinds report.
func ruleDotLeaves(rule string) RuleFn {
	return func(c *an.Ctx) {
		c.Rule(rule, "X-dot-leaves: every dot.Node that resultSingle.DotResult builds carries the result's own Name, every one that resultGrouped.DotResult builds carries the result's own Group - the primary entry and each As entry alike - with Type the primary type resp. the As element; paramSingle.DotParam reports Type, Name and Optional, paramGroupedSlice.DotParam Type and Group of the parameter itself")
		n := 0
		for _, sp := range []struct {
			fn, recv string
			want     map[string]string // field -> required value (suffix match on p:<recv>.X); "" = any
		}{
			{"(dig.resultSingle).DotResult", "rs", map[string]string{"Name": "p:rs.Name"}},
			{"(dig.resultGrouped).DotResult", "rt", map[string]string{"Group": "p:rt.Group"}},
			{"(dig.paramSingle).DotParam", "ps", map[string]string{"Name": "p:ps.Name", "Type": "p:ps.Type"}},
			{"(dig.paramGroupedSlice).DotParam", "pt", map[string]string{"Group": "p:pt.Group", "Type": "p:pt.Type"}},
		} {
			fn := c.Fn(rule, sp.fn)
			if fn == nil {
				continue
			}
			nodes := 0
			an.Instrs(fn, func(in ssa.Instruction) {
				al, ok := in.(*ssa.Alloc)
				if !ok || !isConstruction(al) || !an.IsNamed(al.Type(), an.ModPath+"/internal/dot", "Node") {
					return
				}
				nodes++
				n++
				for f, want := range sp.want {
					v := fieldStore(al, f)
					got := "<not set>"
					if v != nil {
						got = an.Norm(an.Resolve(v))
					}
					c.Check(got == want, rule, sp.fn+": entry reports its "+f, want, "a reported entry has "+f+" = "+got+" instead of "+want+": introspection and the DOT picture disagree with the registration", al, nil)
				}
				if strings.HasPrefix(sp.fn, "(dig.result") {
					v := fieldStore(al, "Type")
					got := "<not set>"
					if v != nil {
						got = an.Norm(an.Resolve(v))
					}
					okT := got == "p:"+sp.recv+".Type" || strings.HasPrefix(got, "p:"+sp.recv+".As[")
					c.Check(okT, rule, sp.fn+": entry reports the primary type or an As interface", got, "entry type is "+got, al, nil)
				}
			})
			min := 1
			if strings.HasPrefix(sp.fn, "(dig.result") {
				min = 2
			}
			c.Floor(rule, "dot.Node constructions in "+sp.fn, nodes, min)
		}
		// what is reported is what is delivered: the type of the primary entry of resultGrouped.DotResult is the type
		// under which resultGrouped.Extract submits the members (its undecorated submitGroupedValue calls), and the key
		// connectionVisitor.Visit registers. A flattened group reported as []T is a value nobody can ask for
		if dr, ex := c.P.Func("(dig.resultGrouped).DotResult"), c.P.Func("(dig.resultGrouped).Extract"); dr != nil && ex != nil {
			submitted := map[string]bool{}
			an.Instrs(ex, func(in ssa.Instruction) {
				if k, ok := in.(ssa.CallInstruction); ok && k.Common().IsInvoke() && k.Common().Method.Name() == "submitGroupedValue" && len(k.Common().Args) == 3 {
					if t := an.Norm(an.Resolve(k.Common().Args[1])); !strings.HasPrefix(t, "p:rt.As[") {
						submitted[t] = true
					}
				}
			})
			reported := ""
			an.Instrs(dr, func(in ssa.Instruction) {
				al, isA := in.(*ssa.Alloc)
				if isA && isConstruction(al) && an.IsNamed(al.Type(), an.ModPath+"/internal/dot", "Node") {
					if v := fieldStore(al, "Type"); v != nil {
						if got := an.Norm(an.Resolve(v)); !strings.HasPrefix(got, "p:rt.As[") {
							reported = got
						}
					}
				}
			})
			var ks []string
			for k := range submitted {
				ks = append(ks, k)
			}
			sort.Strings(ks)
			// one type expression for every way the members are submitted (flattened or not), and it is the reported one
			c.Check(len(submitted) == 1 && submitted[reported], rule, "(dig.resultGrouped).DotResult reports the type the members are submitted under", reported, "the introspection entry of a value-group result has type "+reported+" while Extract submits the members under "+strings.Join(ks, " / ")+": ProvideInfo.Outputs and the DOT picture show a value (a flattened group as []T instead of T) that is never provided", nil, nil)
		}
		// a value group has no optional flag (dig rejects `optional` on a group): its dot.Param says Optional = false
		if fn := c.Fn(rule, "(dig.paramGroupedSlice).DotParam"); fn != nil {
			okG := true
			an.Instrs(fn, func(in ssa.Instruction) {
				al, isA := in.(*ssa.Alloc)
				if isA && isConstruction(al) && an.IsNamed(al.Type(), an.ModPath+"/internal/dot", "Param") {
					if v := fieldStore(al, "Optional"); v != nil && an.Norm(an.Resolve(v)) != "false" {
						okG = false
					}
				}
			})
			c.Check(okG, rule, "(dig.paramGroupedSlice).DotParam: a group parameter is never reported as optional", "Optional left false", "the dot.Param of a value group gets an Optional flag from somewhere (its Soft flag?): ProvideInfo/DecorateInfo/InvokeInfo copy it, and a `group:\"x,soft\"` field is reported as []T[optional, group = \"x\"] although no optional tag was declared (dig even rejects one on a group)", nil, nil)
		}
		if fn := c.Fn(rule, "(dig.paramSingle).DotParam"); fn != nil {
			ok := false
			an.Instrs(fn, func(in ssa.Instruction) {
				al, isA := in.(*ssa.Alloc)
				if isA && isConstruction(al) && an.IsNamed(al.Type(), an.ModPath+"/internal/dot", "Param") {
					if v := fieldStore(al, "Optional"); v != nil && an.Norm(an.Resolve(v)) == "p:ps.Optional" {
						ok = true
					}
				}
			})
			c.Check(ok, rule, "(dig.paramSingle).DotParam: entry reports Optional", "p:ps.Optional", "the optional flag is not reported", nil, nil)
		}
		_ = n
	}
}

// ruleAsAll (L-as-all): no listed interface is silently dropped.
func ruleAsAll(rule string) RuleFn {
	return func(c *an.Ctx) {
		c.Rule(rule, "L-as-all: in the loops that turn the dig.As list into the keys of a result node (newResultSingle, grouped branch of newResult) every iteration either returns an error or appends the interface to the collected list - there is no way round the append. An interface that was listed is a key the value is provided under; dropping one (for instance the result's own type when it is listed next to another interface) makes the value unavailable under a type the caller asked for")
		n := 0
		for _, nm := range []string{"dig.newResultSingle", "dig.newResult"} {
			fn := c.Fn(rule, nm)
			if fn == nil {
				continue
			}
			for _, l := range rangeLoops(fn) {
				if l.over != "p:opts.As" {
					continue
				}
				n++
				var apps []ssa.Instruction
				for b := range l.body {
					for _, in := range b.Instrs {
						if k, ok := in.(*ssa.Call); ok {
							if bi, isB := k.Common().Value.(*ssa.Builtin); isB && bi.Name() == "append" {
								apps = append(apps, in)
							}
						}
					}
				}
				cons := nm + ": every listed As interface is collected"
				if len(apps) == 0 {
					c.Bad(rule, cons, "the loop over opts.As appends nothing", l.header.Instrs[0], nil)
					continue
				}
				body := l.header.Succs[0].Instrs[0]
				hit, path := an.PathTo(fn, body, func(i ssa.Instruction) bool { return i.Block() == l.header }, an.NewGates().AddInstr(apps...))
				c.Check(hit == nil, rule, cons, "each iteration: error return or append", "an iteration can go on to the next interface without having collected the current one: a listed interface (e.g. the result's own type, when another interface is listed too) is dropped and the value is not provided under it", apps[0], an.BlockPath(c.P, path))
			}
		}
		c.Floor(rule, "loops over opts.As", n, 2)
	}
}

// successReturnTrue: a return whose last result is the constant true (found).
func successReturnTrue(i ssa.Instruction) bool {
	r, ok := i.(*ssa.Return)
	if !ok || len(r.Results) == 0 {
		return false
	}
	k, isC := r.Results[len(r.Results)-1].(*ssa.Const)
	return isC && k.Value != nil && k.Value.String() == "true"
}

// ruleArrayOf (E-REFL, ArrayOf): reflect.ArrayOf panics when the array would
// not fit the address space; dig calls it on types derived from user types.
func ruleArrayOf(rule string) RuleFn {
	return func(c *an.Ctx) {
		c.Rule(rule, "E-REFL (ArrayOf): reflect.ArrayOf(n, elem) panics when n*elem.Size() overflows the address space. dig builds array types only to SUGGEST near-misses in a missing-type error, from a user-controlled array type ([N]T -> [N]*T and back), so every such call must be dominated by the true edge of a fit test on the same n and elem - a call of a predicate whose body is exactly reflect's own precondition (elem.Size() == 0 || uintptr(n) <= ^uintptr(0)/elem.Size()). Otherwise a legal parameter type such as [1<<61]struct{} turns 'missing type' into a panic inside Invoke")
		n := 0
		for _, fn := range c.P.Funcs {
			for _, k := range methodCalls(fn, "reflect.ArrayOf") {
				n++
				a := k.Common().Args
				cons := fmt.Sprintf("reflect.ArrayOf(%s, %s) in %s fits the address space", an.Norm(a[0]), an.Norm(a[1]), an.ShortName(fn))
				var gates []an.Edge
				for _, g := range methodCalls(fn, "dig.arrayFits") {
					ga := g.Common().Args
					if an.Norm(ga[0]) == an.Norm(a[0]) && an.Norm(ga[1]) == an.Norm(a[1]) {
						gg := g
						gates = append(gates, an.BoolEdges(fn, func(v ssa.Value) bool { return v == ssa.Value(gg) }, true)...)
					}
				}
				okPred := false
				if p := c.P.Func("dig.arrayFits"); p != nil {
					c.See(p)
					an.Instrs(p, func(in ssa.Instruction) {
						if b, ok := in.(*ssa.BinOp); ok && (b.Op == token.LEQ || b.Op == token.GTR) {
							s := an.Norm(b)
							if strings.Contains(s, ".Size()") && strings.Contains(s, "/") {
								okPred = true
							}
						}
					})
				}
				hit, path := an.PathTo(fn, nil, an.IsInstr(k), an.NewGates().AddEdges(gates...))
				c.Check(okPred && len(gates) > 0 && hit == nil, rule, cons, "guarded by arrayFits(n, elem)", "the array type is built without checking that it fits the address space: Invoke(func([1<<61]struct{}){}) panics in reflect.ArrayOf while dig composes its 'missing type' error", k, an.BlockPath(c.P, path))
			}
		}
		c.Floor(rule, "reflect.ArrayOf call sites", n, 1)
	}
}

// ruleCtorReentry (G-ctor-reentry): recursion through constructors is bounded.
func ruleCtorReentry(rule string) RuleFn {
	return func(c *an.Ctx) {
		c.Rule(rule, "G-ctor-reentry: acyclicity is verified per scope, but a constructor is built in ITS OWN scope's view (OrigScope), and the views of two scopes contain different edges: a cycle can run through constructors exported from two sibling scopes (N1 -> P1 -> E2 in one, E2 -> P2 -> N1 in the other) without being a cycle of any single view. The recursion constructorNode.Call -> BuildList -> ... -> Call is therefore bounded only by an in-progress marker of the constructor itself: Call stores constructorNode.building = true before it builds its arguments, restores it in a defer, and a Call that finds the marker set - with no decorator having gone on the stack since (the one legitimate re-entry: a decorator of a dependency that consumes this constructor's result) - returns an error wrapping errCycleDetected instead of recursing. A constructor that asks the container for its own result while it runs is stopped by the same test")
		fn := c.Fn(rule, "(*dig.constructorNode).Call")
		if fn == nil {
			return
		}
		cons := "constructorNode.Call carries an in-progress marker that turns re-entry into a cycle error"
		var mark []ssa.Instruction
		for _, st := range an.StoresToField(fn, "constructorNode", "building") {
			if an.Norm(st.Val) == "true" {
				mark = append(mark, st)
			}
		}
		builds := an.CallsNamed(fn, "(dig.paramList).BuildList")
		if len(mark) == 0 || len(builds) == 0 {
			c.BadAt(rule, cons, "constructorNode.Call sets no in-progress marker: with per-scope cycle detection only, constructors exported from two sibling scopes can form a cycle that no single scope's graph contains (s1: N1(P1) exported, P1(E2); s2: E2(P2) exported, P2(N1)); every Provide is accepted and the first Invoke recurses until the process dies with a stack overflow, which RecoverFromPanics cannot catch", c.P.Pos(fn.Pos()), nil)
			return
		}
		good := true
		why := ""
		for _, b := range builds {
			if hit, _ := an.PathTo(fn, nil, an.IsInstr(b), an.NewGates().AddInstr(mark...)); hit != nil {
				good, why = false, "arguments can be built before the marker is set"
			}
		}
		// entry test: the true edge of n.building (possibly conjoined with the decorator-epoch test) leads only to error exits
		pos := an.BoolEdges(fn, func(v ssa.Value) bool { return an.Norm(v) == "p:n.building" }, true)
		if len(pos) == 0 {
			good, why = false, "the marker is never tested"
		}
		okErr := false
		for _, k := range methodCalls(fn, "dig.newErrInvalidInput") {
			if strings.Contains(an.Norm(k), "complit") || true {
				// the error wraps an errCycleDetected literal
				an.Instrs(fn, func(in ssa.Instruction) {
					if al, ok := in.(*ssa.Alloc); ok && isConstruction(al) && an.IsDigNamed(al.Type(), "errCycleDetected") {
						okErr = true
					}
				})
			}
		}
		if !okErr && good {
			good, why = false, "re-entry is not reported as an error that IsCycleDetected recognises"
		}
		// restored on exit: a deferred closure stores into n.building
		restored := len(builds) > 0
		for _, b := range builds {
			if !deferredAlways(fn, b, func(cl *ssa.Function) []ssa.Instruction {
				var out []ssa.Instruction
				for _, st := range an.StoresToField(cl, "constructorNode", "building") {
					out = append(out, st)
				}
				return out
			}) {
				restored = false
			}
		}
		if !restored && good {
			good, why = false, "the marker is not restored by a deferred function (a failed or panicking build would leave the constructor unusable)"
		}
		c.Check(good, rule, cons, "building = true before BuildList; tested at entry; restored by defer", why, mark[0], nil)
		// while the user's function itself runs there is no legitimate re-entry at all: a flag set around the
		// invoker call is tested at entry without any exception
		cons3 := "constructorNode.Call rejects every re-entry while the constructor function itself is running"
		var runMark []ssa.Instruction
		for _, st := range an.StoresToField(fn, "constructorNode", "running") {
			if an.Norm(st.Val) == "true" {
				runMark = append(runMark, st)
			}
		}
		okRun, whyRun := len(runMark) > 0, "no flag is set around the call of the user's function: a constructor whose body asks the container (a nested Invoke) for something whose decorator consumes the constructor's own result is entered a second time while it runs, both executions succeed and two instances of the key are handed out"
		if okRun {
			for _, k := range an.Sinks(fn, "invokerFn") {
				if hit, _ := an.PathTo(fn, nil, an.IsInstr(k.(ssa.Instruction)), an.NewGates().AddInstr(runMark...)); hit != nil {
					okRun, whyRun = false, "the user's function can be called without the running flag set"
				}
			}
			runE := an.BoolEdges(fn, func(v ssa.Value) bool { return an.Norm(v) == "p:n.running" }, true)
			if len(runE) == 0 {
				okRun, whyRun = false, "the running flag is never tested"
			}
			for _, e := range runE {
				first := e.From.Succs[e.Succ].Instrs[0]
				proceed := func(i ssa.Instruction) bool {
					if r, ok := i.(*ssa.Return); ok && !isErrorExit(r) {
						return true
					}
					for _, b := range builds {
						if i == ssa.Instruction(b) {
							return true
						}
					}
					return false
				}
				_ = first
				// path-sensitive: the flag may travel through a boolean (reentered := n.running; if !reentered {...})
				e := e
				if res := an.PathSens(an.PSQuery{Fn: fn, StartEdge: &e, Target: func(i ssa.Instruction, _ *an.PEnv) bool { return proceed(i) }}); res.Found != nil || res.Overflow {
					okRun, whyRun = false, "a call that finds the constructor function running can still proceed"
				}
			}
			// cleared whatever happens: before the user's function is called a closure is deferred - on every path,
			// not only under RecoverFromPanics - that stores false on every path through it. A clear after the call,
			// or inside a recover handler that exists only with the option, leaves the flag set when the function
			// panics: every later request is then answered "cycle detected" on an acyclic graph
			for _, k := range an.Sinks(fn, "invokerFn") {
				if okRun && !deferredAlways(fn, k.(ssa.Instruction), func(cl *ssa.Function) []ssa.Instruction {
					var out []ssa.Instruction
					for _, st := range an.StoresToField(cl, "constructorNode", "running") {
						if an.Norm(st.Val) == "false" {
							out = append(out, st)
						}
					}
					return out
				}) {
					okRun, whyRun = false, "the running flag is not cleared by a function deferred on every path to the call (a panicking constructor without RecoverFromPanics leaves it set: every later request for it is rejected as a cycle although the graph is acyclic)"
				}
			}
		}
		c.Check(okRun, rule, cons3, "running = true around the invoker call; tested unconditionally at entry; cleared by defer", whyRun, mark[0], nil)
		// the decorator epoch: the one legitimate re-entry is told apart by comparing the number of decorator starts
		// recorded with the marker against the current one - for EQUALITY - and every decorator start is counted
		// before the decorator builds its arguments
		cons2 := "constructorNode.Call tells re-entry through a decorator apart by the decorator-start counter"
		var epochFacts []string
		an.EdgesWhere(fn, func(ft an.Fact) bool {
			if strings.Contains(ft.S, "buildingSince") || strings.Contains(ft.S, "decoratorsStarted") {
				epochFacts = append(epochFacts, ft.S)
			}
			return false
		})
		eq := regexp.MustCompile(`^!?\((p:n\.buildingSince (==|!=) [^ ]*decoratorsStarted|[^ ]*decoratorsStarted (==|!=) p:n\.buildingSince)\)$`)
		okEpoch := len(epochFacts) > 0
		whyE := "the re-entry test does not consult the decorator-start counter: a decorator of a dependency that consumes this constructor's own result (accepted, acyclic in every view) is reported as a cycle"
		for _, f := range epochFacts {
			if !eq.MatchString(f) {
				okEpoch, whyE = false, "the epoch test is "+f+", not an equality of constructorNode.buildingSince and Scope.decoratorsStarted: with an ordering test the guard never fires (the recorded count cannot exceed the current one) and the cross-scope cycle overflows the stack again"
			}
		}
		// polarity: the cycle error is built on the edge where the two counts are EQUAL, never on the other one
		if okEpoch {
			isEq := func(ft an.Fact) bool {
				m := eq.FindStringSubmatch(ft.S)
				if m == nil {
					return false
				}
				op := m[2] + m[3]
				return (op == "==") != strings.HasPrefix(ft.S, "!")
			}
			eqE := an.EdgesWhere(fn, isEq)
			neE := an.EdgesWhere(fn, func(ft an.Fact) bool { return eq.MatchString(ft.S) && !isEq(ft) })
			isCons := func(in ssa.Instruction) bool {
				al, ok := in.(*ssa.Alloc)
				return ok && isConstruction(al) && an.IsDigNamed(al.Type(), "errCycleDetected")
			}
			// path-sensitive (the verdict may travel through a boolean): the error is built below the "equal" edge, and
			// from the entry it is never built on a path that crossed neither that edge nor the "running" edge
			_ = neE
			fromEq := false
			for _, e := range eqE {
				e := e
				if res := an.PathSens(an.PSQuery{Fn: fn, StartEdge: &e, Gates: an.NewGates().AddInstr(mark...), Target: func(i ssa.Instruction, _ *an.PEnv) bool { return isCons(i) }}); res.Found != nil {
					fromEq = true
				}
			}
			runTrue := an.BoolEdges(fn, func(v ssa.Value) bool { return an.Norm(v) == "p:n.running" }, true)
			other := an.PathSens(an.PSQuery{Fn: fn, Gates: an.NewGates().AddInstr(mark...).AddEdges(eqE...).AddEdges(runTrue...), Target: func(i ssa.Instruction, _ *an.PEnv) bool { return isCons(i) }})
			if !fromEq || other.Found != nil || other.Overflow {
				okEpoch, whyE = false, "the cycle error is not built exactly where constructorNode.buildingSince EQUALS the current decorator-start count: with the test inverted, a genuine re-entry recurses until the stack overflows and the legitimate one through a decorator is rejected"
			}
		}
		sinceStored := false
		for _, st := range an.StoresToField(fn, "constructorNode", "buildingSince") {
			if strings.Contains(an.Norm(st.Val), "decoratorsStarted") {
				sinceStored = true
			}
		}
		if okEpoch && !sinceStored {
			okEpoch, whyE = false, "the current decorator-start count is never recorded in constructorNode.buildingSince next to the marker"
		}
		c.Check(okEpoch, rule, cons2, "n.building && n.buildingSince == root.decoratorsStarted", whyE, mark[0], nil)
		if dn := c.Fn(rule, "(*dig.decoratorNode).Call"); dn != nil {
			var incs []ssa.Instruction
			for _, st := range an.StoresToField(dn, "Scope", "decoratorsStarted") {
				if v := an.Norm(st.Val); strings.Contains(v, "decoratorsStarted + 1") || strings.Contains(v, "1 + ") {
					incs = append(incs, st)
				}
			}
			goodInc := len(incs) > 0
			for _, b := range an.CallsNamed(dn, "(dig.paramList).BuildList") {
				if hit, _ := an.PathTo(dn, nil, an.IsInstr(b), an.NewGates().AddInstr(incs...)); hit != nil {
					goodInc = false
				}
			}
			// the count is of decorators that are RUNNING: it is taken back when the decorator returns. A counter
			// that only grows lets a decorator that fails and is started again on every lap of a cycle (through an
			// optional parameter) keep the re-entry test from ever firing
			undone := false
			for _, cl := range dn.AnonFuncs {
				for _, st := range an.StoresToField(cl, "Scope", "decoratorsStarted") {
					if v := an.Norm(st.Val); strings.Contains(v, "decoratorsStarted - 1") {
						undone = true
					}
				}
			}
			c.Check(undone, rule, "decoratorNode.Call takes its count back when it returns", "deferred decoratorsStarted--", "the decorator-start counter only grows: in a cycle that runs through the views of two sibling scopes, one optional parameter whose constructor's dependency has a decorator that fails (a missing dependency) restarts that decorator on every lap, the counter changes on every lap, the re-entry guard of constructorNode.Call never sees two equal counts, and Invoke recurses until the stack overflows", nil, nil)
			c.Check(goodInc, rule, "decoratorNode.Call counts its start before it builds its arguments", "rootScope().decoratorsStarted++ dominates BuildList", "a decorator can build its arguments without having counted its start: the constructor it re-enters legitimately (it decorates one of that constructor's dependencies and consumes its result) sees an unchanged counter and reports a cycle", nil, nil)
		}
	}
}

// deferredAlways: every path from the entry of fn to target passes a defer of a closure in which every path to a
// return passes one of the instructions clear(closure) returns.
func deferredAlways(fn *ssa.Function, target ssa.Instruction, clear func(*ssa.Function) []ssa.Instruction) bool {
	var defers []ssa.Instruction
	an.Instrs(fn, func(in ssa.Instruction) {
		d, ok := in.(*ssa.Defer)
		if !ok {
			return
		}
		var cl *ssa.Function
		switch v := d.Call.Value.(type) {
		case *ssa.MakeClosure:
			cl, _ = v.Fn.(*ssa.Function)
		case *ssa.Function:
			cl = v
		}
		if cl == nil || len(cl.Blocks) == 0 {
			return
		}
		cs := clear(cl)
		if len(cs) == 0 {
			return
		}
		isRet := func(i ssa.Instruction) bool { _, ok := i.(*ssa.Return); return ok }
		if hit, _ := an.PathTo(cl, nil, isRet, an.NewGates().AddInstr(cs...)); hit == nil {
			defers = append(defers, in)
		}
	})
	if len(defers) == 0 {
		return false
	}
	hit, _ := an.PathTo(fn, nil, an.IsInstr(target), an.NewGates().AddInstr(defers...))
	return hit == nil
}
