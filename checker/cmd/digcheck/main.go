// Command digcheck decides the static part of the dig properties from /repo's
// current source. It never executes dig.
package main

import (
	"encoding/json"
	"flag"
	"fmt"
	"os"
	"path/filepath"
	"runtime/debug"
	"strconv"
	"strings"
	"time"

	"verif/checker/internal/an"
	"verif/checker/internal/rules"
)

func main() {
	prop := flag.String("property", "", "property id (C01..C20) or 'all'")
	tier := flag.String("tier", "quick", "quick|thorough")
	repo := flag.String("repo", "/repo", "repository to analyse")
	verif := flag.String("verif", "/verif", "verification directory (evidence, known findings)")
	evdir := flag.String("evidence-dir", "", "directory for evidence files (default <verif>/evidence)")
	tags := flag.String("tags", "verif", "build tags")
	goarch := flag.String("goarch", "", "GOARCH override")
	dump := flag.String("dump", "", "debug: print normalised SSA of the named function")
	genp := flag.Bool("genparams", false, "development: print the frozen parameter-name table")
	explain := flag.Bool("explain", false, "print the per-property explanations and rule lists as JSON (used by gen_manifest.py)")
	genk := flag.Bool("genknown", false, "development: print the table of known functions (names and flattened signatures)")
	flag.Parse()
	if *explain {
		out := map[string]interface{}{}
		for _, id := range rules.IDs() {
			out[id] = map[string]interface{}{"explanation": rules.Get(id).Explanation}
		}
		b, _ := json.MarshalIndent(out, "", " ")
		fmt.Println(string(b))
		return
	}
	if *evdir == "" {
		*evdir = filepath.Join(*verif, "evidence")
	}
	seed, _ := strconv.Atoi(os.Getenv("VERIF_SEED"))
	if t := os.Getenv("VERIF_TIER"); t != "" && (t == "quick" || t == "thorough") && !isFlagSet("tier") {
		*tier = t
	}
	start := time.Now()
	p, err := an.Load(an.LoadOptions{Dir: *repo, Tags: *tags, GOARCH: *goarch, NoCanon: *genk || *genp})
	if err != nil {
		fmt.Printf("UNDECIDED property=%s load failed: %v\n", *prop, err)
		loadFailed(*prop, *evdir, err)
		os.Exit(1)
	}
	if *genp {
		genParamNames(p)
		return
	}
	if *genk {
		genKnownFuncs(p)
		return
	}
	if d := os.Getenv("VERIF_DUMP_CANON"); d != "" && p.Canon != nil {
		for n, b := range p.Canon.Overlay {
			os.WriteFile(filepath.Join(d, filepath.Base(n)), b, 0o644)
		}
	}
	if p.Canon != nil {
		for _, n := range p.Canon.Notes {
			fmt.Printf("canonicalised: %s\n", n)
		}
	}
	if *dump != "" {
		an.Dump(p, *dump)
		return
	}
	ff, err := an.LoadFindings(filepath.Join(*verif, "known_findings.json"))
	if err != nil {
		fmt.Printf("UNDECIDED property=%s known findings unreadable: %v\n", *prop, err)
		os.Exit(2)
	}
	ids := []string{*prop}
	if *prop == "all" {
		ids = rules.IDs()
	}
	exit := 0
	for _, id := range ids {
		pr := rules.Get(id)
		if pr == nil {
			fmt.Printf("UNDECIDED property=%s no such property registered\n", id)
			os.Exit(2)
		}
		t0 := time.Now()
		c := an.NewCtx(p, id, *tier)
		func() {
			defer func() {
				if r := recover(); r != nil {
					c.Und("X-internal", "analyzer panic", fmt.Sprintf("%v\n%s", r, debug.Stack()))
				}
			}()
			for _, r := range pr.Rules {
				r(c)
			}
		}()
		wall := time.Since(t0).Seconds()
		if len(ids) == 1 {
			wall = time.Since(start).Seconds()
		}
		cmd := fmt.Sprintf("/verif/verify.sh %s %s", id, *tier)
		extra := map[string]interface{}{
			"build_config": map[string]string{"tags": *tags, "goarch": *goarch},
			"packages":     len(p.Pkgs),
		}
		code := c.Finish(ff, filepath.Join(*evdir, id+".json"), pr.Explanation, append(append([]string{}, pr.Assumptions...), commonAssumptionsOf()...), extra, wall, seed, cmd)
		if code > exit {
			if !(exit == 1) {
				exit = code
			}
		}
		if code == 1 {
			exit = 1
		}
	}
	os.Exit(exit)
}

func commonAssumptionsOf() []string { return rules.CommonAssumptions() }

func isFlagSet(name string) bool {
	set := false
	flag.Visit(func(f *flag.Flag) {
		if f.Name == name {
			set = true
		}
	})
	return set
}

var _ = strings.TrimSpace

// loadFailed: a tree that does not load or type-check cannot be shown to have the property; reported as a violation
// with a replay file saying so (the interface has two outcomes).
func loadFailed(prop, evdir string, err error) {
	ids := []string{prop}
	if prop == "all" || prop == "" {
		ids = rules.IDs()
	}
	for _, id := range ids {
		d := filepath.Join(evdir, "violations")
		os.MkdirAll(d, 0o755)
		rp := filepath.Join(d, id+"-load.json")
		os.WriteFile(rp, []byte(fmt.Sprintf("{\n  \"property\": %q,\n  \"status\": \"undecided: the repository does not load/type-check, nothing could be analysed\",\n  \"detail\": %q\n}\n", id, err.Error())), 0o644)
		fmt.Printf("VIOLATION property=%s replay=%s\n", id, rp)
	}
}
